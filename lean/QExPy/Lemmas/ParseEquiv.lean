/-
  Token-level equivalence of the library's parser pipeline (implicit-multiplication grouping,
  two-stack precedence parser) with the reference grammar — the unbounded induction behind
  `C12_tokens_equiv`.

  Idea.  The reference automaton `asm done cur` has four kinds of state; each corresponds to a
  state of the grouping pass `groupAux ts acc pre` in which the already emitted tokens
  (`acc` without its head when `pre = false`: the head may still be wrapped into a group) drive
  the two-stack parser from empty stacks into
      done = none            ↦ operands [],  operators []
      done = some (e, po)    ↦ operands [e], operators [po]
  (`Sim`), and the head of `acc`, if pending, evaluates (`tokVal`) to `cur`.  Because `*` and `/`
  rank equal and above the bottom marker, an operator on a non-empty operator stack always
  reduces first, so the stacks never grow beyond these shapes.  Ill-formed inputs (leading,
  doubled, dangling operators) put an operator into operand position; the grouping pass keeps
  going, and three "doomed" lemmas show that the two-stack parser then fails whatever follows.
-/
import QExPy.Model.UnitParse
namespace QExPy.U

/-! ### the precedence table, as far as the parser uses it -/

theorem pwOk_true : pwOk = true := by decide

theorem opStep_nil (o : Bool) (operands : List Tree) :
    opStep o operands [] = some (operands, [o]) := by
  cases o <;> rfl

theorem opStep_cons (o o' : Bool) (operands : List Tree) (os : List Bool) :
    opStep o operands (o' :: os) =
      match reduce operands (o' :: os) with
      | some (a, b) => some (a, o :: b)
      | none => none := by
  cases o <;> cases o' <;> rfl

/-! ### unfolding the two-stack parser -/

theorem twoStackAux_nil (operands : List Tree) (operators : List Bool) :
    twoStackAux [] operands operators =
      match finish operators.length operands operators with
      | some ops => ops.getLast?
      | none => none := by
  simp only [twoStackAux]; rfl

theorem twoStackAux_mul (ts : List Tok) (operands : List Tree) (operators : List Bool) :
    twoStackAux (.mul :: ts) operands operators =
      match opStep true operands operators with
      | some (a, b) => twoStackAux ts a b
      | none => none := by
  simp only [twoStackAux]; rfl

theorem twoStackAux_div (ts : List Tok) (operands : List Tree) (operators : List Bool) :
    twoStackAux (.div :: ts) operands operators =
      match opStep false operands operators with
      | some (a, b) => twoStackAux ts a b
      | none => none := by
  simp only [twoStackAux]; rfl

theorem twoStackAux_val (t : Tok) (h : t.isOp = false) (ts : List Tok) (operands : List Tree)
    (operators : List Bool) :
    twoStackAux (t :: ts) operands operators =
      match tokVal t with
      | some v => twoStackAux ts (v :: operands) operators
      | none => none := by
  cases t <;> simp_all [twoStackAux, Tok.isOp] <;> rfl

/-- the operator a token stands for -/
def Tok.opOf : Tok → Bool
  | .mul => true
  | _ => false

theorem twoStackAux_op (t : Tok) (h : t.isOp = true) (ts : List Tok) (operands : List Tree)
    (operators : List Bool) :
    twoStackAux (t :: ts) operands operators =
      match opStep t.opOf operands operators with
      | some (a, b) => twoStackAux ts a b
      | none => none := by
  cases t <;> simp_all [twoStackAux, Tok.isOp, Tok.opOf] <;> rfl

theorem tokVal_grp (g : List Tok) : tokVal (.grp g) = twoStackAux g [] [] := by
  simp [tokVal]

/-! ### the reference automaton over tokens -/

/-- what a token is for the reference grammar: an operator, or a factor with its tree -/
def itemOf (t : Tok) : Option Item :=
  match t with
  | .mul => some (.op true)
  | .div => some (.op false)
  | t => (tokVal t).map .val

def itemsOf : List Tok → Option (List Item)
  | [] => some []
  | t :: r =>
    match itemOf t, itemsOf r with
    | some i, some is => some (i :: is)
    | _, _ => none

/-- the reference automaton started in state `(done, cur)` on the tokens `ts` -/
def asmT (done : Option (Tree × Bool)) (cur : Option Tree) (ts : List Tok) : Option Tree :=
  match itemsOf ts with
  | some is => asm done cur is
  | none => none

theorem itemOf_op (t : Tok) (h : t.isOp = true) : itemOf t = some (.op t.opOf) := by
  cases t <;> simp_all [itemOf, Tok.isOp, Tok.opOf]

theorem itemOf_val (t : Tok) (h : t.isOp = false) : itemOf t = (tokVal t).map .val := by
  cases t <;> simp_all [itemOf, Tok.isOp]

theorem asmT_nil (done : Option (Tree × Bool)) (cur : Option Tree) :
    asmT done cur [] = asm done cur [] := rfl

theorem asmT_bad (t : Tok) (h : t.isOp = false) (hv : tokVal t = none) (ts : List Tok)
    (done : Option (Tree × Bool)) (cur : Option Tree) : asmT done cur (t :: ts) = none := by
  simp [asmT, itemsOf, itemOf_val t h, hv]

theorem asmT_val_none (t : Tok) (h : t.isOp = false) (v : Tree) (hv : tokVal t = some v)
    (ts : List Tok) (done : Option (Tree × Bool)) :
    asmT done none (t :: ts) = asmT done (some v) ts := by
  simp only [asmT, itemsOf, itemOf_val t h, hv, Option.map]
  cases itemsOf ts with
  | none => rfl
  | some is => simp [asm]

theorem asmT_val_some (t : Tok) (h : t.isOp = false) (v : Tree) (hv : tokVal t = some v)
    (ts : List Tok) (done : Option (Tree × Bool)) (c : Tree) :
    asmT done (some c) (t :: ts) = asmT done (some (.bin true c v)) ts := by
  simp only [asmT, itemsOf, itemOf_val t h, hv, Option.map]
  cases itemsOf ts with
  | none => rfl
  | some is => simp [asm]

theorem asmT_op_none (t : Tok) (h : t.isOp = true) (ts : List Tok)
    (done : Option (Tree × Bool)) : asmT done none (t :: ts) = none := by
  simp only [asmT, itemsOf, itemOf_op t h]
  cases itemsOf ts with
  | none => rfl
  | some is => simp [asm]

theorem asmT_op_some_none (t : Tok) (h : t.isOp = true) (ts : List Tok) (c : Tree) :
    asmT none (some c) (t :: ts) = asmT (some (c, t.opOf)) none ts := by
  simp only [asmT, itemsOf, itemOf_op t h]
  cases itemsOf ts with
  | none => rfl
  | some is => simp [asm]

theorem asmT_op_some_some (t : Tok) (h : t.isOp = true) (ts : List Tok) (c e : Tree) (po : Bool) :
    asmT (some (e, po)) (some c) (t :: ts) = asmT (some (.bin po e c, t.opOf)) none ts := by
  simp only [asmT, itemsOf, itemOf_op t h]
  cases itemsOf ts with
  | none => rfl
  | some is => simp [asm]

/-! ### doomed states of the grouping pass -/

/-- the tokens emitted so far already make the two-stack parser fail, whatever follows -/
def Dead (acc : List Tok) : Prop := ∀ ys, twoStackAux (acc.reverse ++ ys) [] [] = none

theorem Dead.cons {acc : List Tok} (h : Dead acc) (x : Tok) : Dead (x :: acc) := by
  intro ys
  have := h (x :: ys)
  simpa using this

/-- a failing operand anywhere makes the whole list fail -/
theorem twoStackAux_bad (xs : List Tok) (t : Tok) (h : t.isOp = false) (hv : tokVal t = none)
    (ys : List Tok) : ∀ a b, twoStackAux (xs ++ t :: ys) a b = none := by
  induction xs with
  | nil => intro a b; simp [twoStackAux_val t h, hv]
  | cons x xs ih =>
    intro a b
    cases hx : x.isOp with
    | true =>
      simp only [List.cons_append, twoStackAux_op x hx]
      split
      · exact ih _ _
      · rfl
    | false =>
      simp only [List.cons_append, twoStackAux_val x hx]
      split
      · exact ih _ _
      · rfl

theorem dead_of_bad (acc : List Tok) (t : Tok) (h : t.isOp = false) (hv : tokVal t = none) :
    Dead (t :: acc) := by
  intro ys
  simpa using twoStackAux_bad acc.reverse t h hv ys [] []

theorem group_dead (ts : List Tok) : ∀ acc,
    (Dead acc → twoStackAux (groupAux ts acc true) [] [] = none) ∧
    (∀ x acc', acc = x :: acc' → Dead acc' → twoStackAux (groupAux ts acc false) [] [] = none) := by
  induction ts with
  | nil =>
    intro acc
    refine ⟨fun h => ?_, fun x acc' e h => ?_⟩
    · simpa [groupAux] using h []
    · subst e
      simpa [groupAux] using h [x]
  | cons t ts ih =>
    intro acc
    refine ⟨fun h => ?_, fun x acc' e h => ?_⟩
    · simp only [groupAux]
      exact (ih (t :: acc)).2 t acc rfl h
    · subst e
      cases ht : t.isOp with
      | true =>
        simp only [groupAux, ht, if_true]
        exact (ih _).1 ((h.cons x).cons t)
      | false =>
        simp only [groupAux, ht]
        exact (ih _).2 _ acc' rfl h

/-- a pending token that is a failing operand dooms the run -/
theorem group_bad_last (ts : List Tok) : ∀ (last : Tok) (acc' : List Tok),
    last.isOp = false → tokVal last = none →
    twoStackAux (groupAux ts (last :: acc') false) [] [] = none := by
  induction ts with
  | nil =>
    intro last acc' h hv
    simpa [groupAux] using twoStackAux_bad acc'.reverse last h hv [] [] []
  | cons t ts ih =>
    intro last acc' h hv
    cases ht : t.isOp with
    | true =>
      simp only [groupAux, ht, if_true]
      exact (group_dead ts _).1 ((dead_of_bad acc' last h hv).cons t)
    | false =>
      simp only [groupAux, ht]
      refine ih _ acc' rfl ?_
      rw [tokVal_grp, twoStackAux_val last h, hv]

/-! ### the simulation -/

def stkOf : Option (Tree × Bool) → List Tree
  | none => []
  | some (e, _) => [e]

def opsOf : Option (Tree × Bool) → List Bool
  | none => []
  | some (_, po) => [po]

/-- the tokens in `acc` (reversed) drive the two-stack parser into the stacks of `done` -/
def Sim (acc : List Tok) (done : Option (Tree × Bool)) : Prop :=
  ∀ ys, twoStackAux (acc.reverse ++ ys) [] [] = twoStackAux ys (stkOf done) (opsOf done)

theorem sim_nil : Sim [] none := fun _ => rfl

/-- an operator in operand position (leading or doubled operator) dooms the run -/
theorem group_op_last (ts : List Tok) (t : Tok) (ht : t.isOp = true) (acc : List Tok)
    (done : Option (Tree × Bool)) (hs : Sim acc done) :
    twoStackAux (groupAux ts (t :: acc) false) [] [] = none := by
  -- after `t` the parser is in a state from which an operator or the end fails
  have step : ∀ ys, twoStackAux (acc.reverse ++ t :: ys) [] [] =
      match done with
      | none => twoStackAux ys [] [t.opOf]
      | some _ => none := by
    intro ys
    rw [hs (t :: ys), twoStackAux_op t ht]
    cases done with
    | none => simp [stkOf, opsOf, opStep_nil]
    | some d => obtain ⟨e, po⟩ := d; simp [stkOf, opsOf, opStep_cons, reduce]
  cases ts with
  | nil =>
    simp only [groupAux, List.reverse_cons]
    rw [step []]
    cases done with
    | none => simp [twoStackAux_nil, finish, reduce]
    | some d => rfl
  | cons t2 ts =>
    cases ht2 : t2.isOp with
    | true =>
      simp only [groupAux, ht2, if_true]
      refine (group_dead ts _).1 ?_
      intro ys
      simp only [List.reverse_cons, List.append_assoc, List.cons_append, List.nil_append]
      rw [step (t2 :: ys)]
      cases done with
      | none => simp [twoStackAux_op t2 ht2, opStep_cons, reduce]
      | some d => rfl
    | false =>
      simp only [groupAux, ht2]
      refine group_bad_last ts _ acc rfl ?_
      rw [tokVal_grp, twoStackAux_op t ht, opStep_nil]
      simp [twoStackAux_mul, opStep_cons, reduce]

theorem group_sim (ts : List Tok) : ∀ (acc : List Tok) (done : Option (Tree × Bool)),
    (Sim acc done → twoStackAux (groupAux ts acc true) [] [] = asmT done none ts) ∧
    (∀ last acc' c, acc = last :: acc' → Sim acc' done → last.isOp = false →
      tokVal last = some c →
      twoStackAux (groupAux ts acc false) [] [] = asmT done (some c) ts) := by
  induction ts with
  | nil =>
    intro acc done
    refine ⟨fun hs => ?_, fun last acc' c e hs hl hv => ?_⟩
    · have := hs []
      simp only [List.append_nil] at this
      simp only [groupAux, this, asmT_nil]
      cases done with
      | none => simp [stkOf, opsOf, twoStackAux_nil, finish, asm]
      | some d => obtain ⟨e, po⟩ := d; simp [stkOf, opsOf, twoStackAux_nil, finish, reduce, asm]
    · subst e
      have := hs [last]
      simp only [groupAux, List.reverse_cons, this, asmT_nil, twoStackAux_val last hl, hv]
      cases done with
      | none => simp [stkOf, opsOf, twoStackAux_nil, finish, asm]
      | some d => obtain ⟨e, po⟩ := d; simp [stkOf, opsOf, twoStackAux_nil, finish, reduce, asm]
  | cons t ts ih =>
    intro acc done
    refine ⟨fun hs => ?_, fun last acc' c e hs hl hv => ?_⟩
    · -- after an operator or at the start: `t` is pushed
      simp only [groupAux]
      cases ht : t.isOp with
      | true => rw [asmT_op_none t ht]; exact group_op_last ts t ht acc done hs
      | false =>
        cases hv : tokVal t with
        | none => rw [asmT_bad t ht hv]; exact group_bad_last ts t acc ht hv
        | some v => rw [asmT_val_none t ht v hv]; exact (ih (t :: acc) done).2 t acc v rfl hs ht hv
    · subst e
      cases ht : t.isOp with
      | true =>
        -- an explicit operator closes the current term
        simp only [groupAux, ht, if_true]
        cases done with
        | none =>
          rw [asmT_op_some_none t ht]
          refine (ih _ _).1 ?_
          intro ys
          have := hs (last :: t :: ys)
          simp only [List.reverse_cons, List.append_assoc, List.cons_append,
            List.nil_append, this, twoStackAux_val last hl, hv, twoStackAux_op t ht]
          simp [stkOf, opsOf, opStep_nil]
        | some d =>
          obtain ⟨e, po⟩ := d
          rw [asmT_op_some_some t ht]
          refine (ih _ _).1 ?_
          intro ys
          have := hs (last :: t :: ys)
          simp only [List.reverse_cons, List.append_assoc, List.cons_append,
            List.nil_append, this, twoStackAux_val last hl, hv, twoStackAux_op t ht]
          simp [stkOf, opsOf, opStep_cons, reduce]
      | false =>
        -- juxtaposition: the pending token and `t` are wrapped into a group
        simp only [groupAux, ht]
        have hg : tokVal (.grp [last, .mul, t]) = (tokVal t).map fun v => .bin true c v := by
          rw [tokVal_grp, twoStackAux_val last hl, hv]
          simp only [twoStackAux_mul, opStep_nil, twoStackAux_val t ht]
          cases tokVal t with
          | none => rfl
          | some v => simp [twoStackAux_nil, finish, reduce]
        cases hv2 : tokVal t with
        | none =>
          rw [asmT_bad t ht hv2]
          exact group_bad_last ts _ acc' rfl (by rw [hg, hv2]; rfl)
        | some v =>
          rw [asmT_val_some t ht v hv2]
          exact (ih _ done).2 _ acc' _ rfl hs rfl (by rw [hg, hv2]; rfl)

/-- **grouping + two-stack parser = reference automaton**, on every token list (operands
    identified with their `tokVal`) -/
theorem twoStack_group (ts : List Tok) : twoStack (group ts) = asmT none none ts :=
  (group_sim ts [] none).1 sim_nil

/-! ### nested groups: from `Tok` lists back to `UTok` lists -/

theorem isOp_convTok (t : UTok) : (convTok t).isOp = true →
    (t = .mul ∨ t = .div) := by
  cases t <;> simp [convTok, Tok.isOp]

mutual
theorem refItem_conv : (t : UTok) → refItem t = itemOf (convTok t)
  | .sym s => by simp [refItem, convTok, itemOf, tokVal]
  | .pw s e => by simp [refItem, convTok, itemOf, tokVal, pwOk_true]
  | .one => by simp [refItem, convTok, itemOf, tokVal]
  | .mul => by simp [refItem, convTok, itemOf]
  | .div => by simp [refItem, convTok, itemOf]
  | .par ts => by
    have ih := refItems_conv ts
    have h := twoStack_group (conv ts)
    simp only [twoStack] at h
    simp only [refItem, convTok, itemOf, tokVal_grp, h, asmT, ih]
    cases itemsOf (conv ts) <;> rfl
theorem refItems_conv : (ts : List UTok) → refItems ts = itemsOf (conv ts)
  | [] => by simp [refItems, conv, itemsOf]
  | t :: r => by
    simp only [refItems, conv, itemsOf, refItem_conv t, refItems_conv r]; rfl
end

/-- **C12, token level (all token lists, nested groups included).** -/
theorem tokens_equiv (ts : List UTok) : twoStack (groupAll ts) = refExpr ts := by
  simp only [groupAll, refExpr, twoStack_group, asmT, refItems_conv]; rfl

end QExPy.U

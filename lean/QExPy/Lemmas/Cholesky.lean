/- Helper lemmas for C02: explicit 2×2 / 3×3 Cholesky factorisation over ℝ. -/
import QExPy.Real
import QExPy.Model.MonteCarlo
import Mathlib.Tactic.Ring
import Mathlib.Tactic.Linarith
import Mathlib.Tactic.FieldSimp
import Mathlib.Tactic.Positivity

namespace QExPy
namespace MC

/-- xᵀ R x for a symmetric 2×2 matrix given by its lower triangle -/
def qf2 (r11 r21 r22 x y : ℝ) : ℝ := r11 * x ^ 2 + 2 * r21 * x * y + r22 * y ^ 2

/-- xᵀ R x for a symmetric 3×3 matrix given by its lower triangle -/
def qf3 (r11 r21 r22 r31 r32 r33 x y z : ℝ) : ℝ :=
  r11 * x ^ 2 + r22 * y ^ 2 + r33 * z ^ 2 + 2 * r21 * x * y + 2 * r31 * x * z + 2 * r32 * y * z

/-- positive definite: xᵀ R x > 0 for every x ≠ 0 -/
def PosDef2 (r11 r21 r22 : ℝ) : Prop := ∀ x y : ℝ, (x ≠ 0 ∨ y ≠ 0) → 0 < qf2 r11 r21 r22 x y

def PosDef3 (r11 r21 r22 r31 r32 r33 : ℝ) : Prop :=
  ∀ x y z : ℝ, (x ≠ 0 ∨ y ≠ 0 ∨ z ≠ 0) → 0 < qf3 r11 r21 r22 r31 r32 r33 x y z

theorem qf2_decomp (s1 l21 d2 x y : ℝ) :
    qf2 (s1 * s1) (l21 * s1) (l21 * l21 + d2) x y = (s1 * x + l21 * y) ^ 2 + d2 * y ^ 2 := by
  unfold qf2; ring

theorem qf3_decomp (s1 l21 l31 s2 l32 d3 x y z : ℝ) :
    qf3 (s1 * s1) (l21 * s1) (l21 * l21 + s2 * s2) (l31 * s1) (l31 * l21 + l32 * s2)
        (l31 * l31 + l32 * l32 + d3) x y z
      = (s1 * x + l21 * y + l31 * z) ^ 2 + (s2 * y + l32 * z) ^ 2 + d3 * z ^ 2 := by
  unfold qf3; ring

theorem qf3_decomp2 (s1 l21 l31 d2 r32 r33 x y : ℝ) :
    qf3 (s1 * s1) (l21 * s1) (l21 * l21 + d2) (l31 * s1) r32 r33 x y 0
      = (s1 * x + l21 * y) ^ 2 + d2 * y ^ 2 := by
  unfold qf3; ring

theorem pivotOk_real (p : ℝ) : pivotOk p = decide (0 < p) := by
  simp [pivotOk, zero]

/-- the factor of L·Lᵀ is L (2×2) -/
theorem chol2_of_factor (s1 l21 s2 : ℝ) (h1 : 0 < s1) (h2 : 0 < s2) :
    chol2 (s1 * s1) (l21 * s1) (l21 * l21 + s2 * s2) = some (s1, l21, s2) := by
  have e1 : Real.sqrt (s1 * s1) = s1 := Real.sqrt_mul_self h1.le
  have e2 : l21 * s1 / s1 = l21 := by field_simp
  have e3 : l21 * l21 + s2 * s2 - l21 * l21 = s2 * s2 := by ring
  have e4 : Real.sqrt (s2 * s2) = s2 := Real.sqrt_mul_self h2.le
  have p1 : 0 < s1 * s1 := by positivity
  have p2 : 0 < s2 * s2 := by positivity
  simp only [chol2, pivotOk_real, num_sqrt, num_div, num_sub, num_mul, e1, e2, e3, e4, p1, p2,
    decide_true, if_true]

/-- the factor of L·Lᵀ is L (3×3) -/
theorem chol3_of_factor (s1 l21 s2 l31 l32 s3 : ℝ) (h1 : 0 < s1) (h2 : 0 < s2) (h3 : 0 < s3) :
    chol3 (s1 * s1) (l21 * s1) (l21 * l21 + s2 * s2) (l31 * s1) (l31 * l21 + l32 * s2)
      (l31 * l31 + l32 * l32 + s3 * s3) = some (s1, l21, s2, l31, l32, s3) := by
  have e1 : Real.sqrt (s1 * s1) = s1 := Real.sqrt_mul_self h1.le
  have e2 : l21 * s1 / s1 = l21 := by field_simp
  have e2' : l31 * s1 / s1 = l31 := by field_simp
  have e3 : l21 * l21 + s2 * s2 - l21 * l21 = s2 * s2 := by ring
  have e4 : Real.sqrt (s2 * s2) = s2 := Real.sqrt_mul_self h2.le
  have e5 : (l31 * l21 + l32 * s2 - l31 * l21) / s2 = l32 := by field_simp; ring
  have e6 : l31 * l31 + l32 * l32 + s3 * s3 - l31 * l31 - l32 * l32 = s3 * s3 := by ring
  have e7 : Real.sqrt (s3 * s3) = s3 := Real.sqrt_mul_self h3.le
  have p1 : 0 < s1 * s1 := by positivity
  have p2 : 0 < s2 * s2 := by positivity
  have p3 : 0 < s3 * s3 := by positivity
  simp only [chol3, pivotOk_real, num_sqrt, num_div, num_sub, num_mul, e1, e2, e2', e3, e4, e5, e6,
    e7, p1, p2, p3, decide_true, if_true]

end MC
end QExPy

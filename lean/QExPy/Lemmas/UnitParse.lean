/- Helpers for the parser theorems (C12, C13): bounded enumeration of token lists. -/
import QExPy.Model.UnitParse
namespace QExPy.U

/-- all lists over `alpha` of length ≤ n -/
def listsUpTo {α : Type} (alpha : List α) : Nat → List (List α)
  | 0 => [[]]
  | n + 1 => [] :: (listsUpTo alpha n).flatMap fun l => alpha.map fun a => a :: l

/-- token alphabet of the bounded theorem: a symbol, a symbol with power, both operators, the
    bare numerator, and bracketed groups that are a symbol, a product, a juxtaposition, a lone
    operator (ill-formed) and a quotient followed by a juxtaposition -/
def tokAlphabet : List UTok :=
  [.sym ['a'], .pw ['b'] ['2'], .mul, .div, .one, .par [.sym ['a']],
   .par [.sym ['a'], .mul, .sym ['b']], .par [.sym ['a'], .sym ['b']], .par [.div],
   .par [.sym ['a'], .div, .sym ['b'], .sym ['a']]]

end QExPy.U

namespace QExPy.U

def rtSyms : List Sym := [['m'], ['s'], ['k', 'g']]
def rtExps : List Rat := [1, 2, 3, -1, -2, -3, mkRat 1 2, mkRat (-1) 2, mkRat 3 2, mkRat 2 3]
def rtExpsSmall : List Rat := [1, -1, -2, mkRat 1 2, mkRat (-3) 2]

/-- all key-unique exponent maps with at most `n` entries over `syms` with exponents from
    `exps`, in every order -/
def mapsOver (syms : List Sym) (exps : List Rat) : Nat → List Units
  | 0 => [[]]
  | n + 1 => [] :: (mapsOver syms exps n).flatMap fun u =>
      (syms.filter fun s => !hasKey u s).flatMap fun s => exps.map fun e => (s, e) :: u

def semEqOn (syms : List Sym) (u v : Units) : Bool := syms.all fun s => expOf u s == expOf v s

/-- `b.unit = a.unit` in the given style: the printed string is accepted and means `u` -/
def roundTripOk (frac : Bool) (u : Units) : Bool :=
  let s := unitProp [] frac u
  if s.isEmpty then u.isEmpty
  else match parse s with
    | some v => semEqOn rtSyms u v && v.all (fun p => rtSyms.contains p.1)
    | none => false

end QExPy.U

/-
  define / clear request histories (Model/UnitDefs.lean): a rejected request changes nothing, and
  after a `clear` that is followed only by rejected definitions no definition is active.
  Used by C13 (`C13_roundtrip_after_history`): the property's domain "no compound-unit
  definitions active" is reached again at the end of such a history.
-/
import QExPy.Model.UnitDefs
namespace QExPy
open U

theorem stepReq_of_rejected (defs : Defs) (r : DefReq) (h : r.accepted = false) :
    stepReq defs r = defs := by
  cases r with
  | clear => simp [DefReq.accepted] at h
  | define n e =>
    simp only [stepReq, defineStep, defineReq]
    simp only [DefReq.accepted, Bool.and_eq_false_iff] at h
    rcases h with h | h
    · simp [h]
    · cases hp : parse e with
      | none => cases nameOk n <;> simp
      | some u => simp [hp] at h

theorem runReqs_all_rejected (defs : Defs) (rs : List DefReq)
    (h : ∀ r ∈ rs, r.accepted = false) : runReqs defs rs = defs := by
  induction rs generalizing defs with
  | nil => rfl
  | cons r rs ih =>
    have h1 := stepReq_of_rejected defs r (h r (by simp))
    simp only [runReqs, List.foldl_cons, h1]
    exact ih defs (fun x hx => h x (by simp [hx]))

theorem runReqs_clear_then_rejected (defs : Defs) (rs rs' : List DefReq)
    (h : ∀ r ∈ rs', r.accepted = false) : runReqs defs (rs ++ DefReq.clear :: rs') = [] := by
  have := runReqs_all_rejected [] rs' h
  simp only [runReqs] at this ⊢
  simp [List.foldl_append, stepReq, this]

end QExPy

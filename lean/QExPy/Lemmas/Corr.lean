/-
  Bridging lemmas for C04: the model `QExPy/Model/Corr.lean` calls the definitions regenerated
  from the source (`QExPy/Generated/Corr.lean`).  Here, at `ℝ`, each model function that contains
  generated pieces is shown equal to its form in the plain vocabulary of the C04 theorems
  (`Num.isZero a || Num.isZero b`, `x / (σa·σb)`, `1 < c ∨ c < −1`, `Stats.clip`, …).  These are
  the only places where the `Gen.*` names of the `corr` section are unfolded: when a formula, a
  test or a clipping bound changes in the code, the lemma for it no longer proves.
-/
import QExPy.Real
import QExPy.Model.Corr
import Mathlib.Tactic.Ring
import Mathlib.Tactic.FieldSimp
import Mathlib.Tactic.Linarith
import Mathlib.Tactic.SplitIfs

namespace QExPy.Corr
open QExPy

theorem rpow_two'' (x : ℝ) : x ^ (((2 : ℕ) : ℝ)) = x * x := by
  rw [Real.rpow_natCast]; ring

/-- the two bound tests say `1 < c ∨ c < −1`, in whatever order / spelling -/
theorem boundBad_iff (c : ℝ) :
    (Gen.corrBoundBad c = true ↔ (1 < c ∨ c < -1)) ∧ (Gen.covBoundBad c = true ↔ (1 < c ∨ c < -1)) := by
  constructor <;>
    simp only [Gen.corrBoundBad, Gen.covBoundBad, num_lt, num_le, num_neg, num_abs, num_ofNat,
      Nat.cast_one, Bool.or_eq_true, Bool.and_eq_true, Bool.not_eq_true', Bool.not_eq_eq_eq_not,
      Bool.not_true, decide_eq_true_eq, decide_eq_false_iff_not] <;>
    first
      | exact Iff.rfl
      | grind

theorem outOfRange_unfold (c : ℝ) :
    outOfRange c = (Num.lt one c || Num.lt c (Num.neg one)) := by
  rw [Bool.eq_iff_iff, outOfRange, (boundBad_iff c).1]
  simp [Corr.one]

theorem covBoundBad_eq (c : ℝ) : Gen.covBoundBad c = outOfRange c := by
  rw [Bool.eq_iff_iff, outOfRange, (boundBad_iff c).1, (boundBad_iff c).2]

theorem zeroSigmaGet_eq (w : Which) (a b : ℝ) :
    zeroSigmaGet w a b = (Num.isZero a || Num.isZero b) := by
  cases w <;> simp only [zeroSigmaGet, Gen.getCovZeroSigma, Gen.getCorrZeroSigma] <;>
    first | rfl | exact Bool.or_comm _ _

theorem zeroSigmaSet_eq (w : Which) (a b : ℝ) :
    zeroSigmaSet w a b = (Num.isZero a || Num.isZero b) := by
  cases w <;> simp only [zeroSigmaSet, Gen.setCovZeroSigma, Gen.setCorrZeroSigma] <;>
    first | rfl | exact Bool.or_comm _ _

theorem selfAnswer_eq (w : Which) (a b : ℝ) :
    selfAnswer w a b = (match w with | .corr => one | .cov => Num.sq a) := by
  cases w <;>
    simp only [selfAnswer, Gen.selfCov, Gen.selfCorr, Corr.one, Num.sq, num_pow, num_mul, num_ofNat,
      rpow_two''] <;>
    first | rfl | ring

theorem nonMeasuredAnswer_eq (w : Which) (a b : ℝ) : nonMeasuredAnswer w a b = zero := by
  cases w <;> simp [nonMeasuredAnswer, Gen.getCovNonMeasured, Gen.getCorrNonMeasured, Corr.zero]

theorem defaultAnswer_eq (w : Which) (a b : ℝ) : defaultAnswer w a b = zero := by
  cases w <;> simp [defaultAnswer, Gen.getCovDefault, Gen.getCorrDefault, Corr.zero]

theorem corrOfCov_eq (x a b : ℝ) : Gen.corrOfCov x a b = Num.div x (Num.mul a b) := by
  simp only [Gen.corrOfCov, num_div, num_mul] <;> first | rfl | ring

theorem covOfCorr_eq (x a b : ℝ) : Gen.covOfCorr x a b = Num.mul x (Num.mul a b) := by
  simp only [Gen.covOfCorr, num_mul] <;> first | rfl | ring

theorem pymax_eq (a b : ℝ) : Py.max a b = if Num.lt a b then b else a := rfl
theorem pymin_eq (a b : ℝ) : Py.min a b = if Num.lt b a then b else a := rfl

/-- `min(max(x, lo), hi)` is the model's `clip` -/
theorem pyclip_eq (x lo hi : ℝ) : Py.min (Py.max x lo) hi = Stats.clip x lo hi := rfl

theorem inferCov_eq (c a b : ℝ) :
    Gen.inferCov c a b = Stats.clip c (Num.neg (Num.mul a b)) (Num.mul a b) := by
  simp only [Gen.inferCov, Py.min, Py.max, Stats.clip, num_lt, num_neg, num_div, num_mul, num_ofNat,
    Nat.cast_one, decide_eq_true_eq] <;>
  first | rfl | (split_ifs <;> first | rfl | linarith | (exfalso; linarith))

theorem inferCorr_eq (c a b : ℝ) :
    Gen.inferCorr c a b = Stats.clip (Num.div c (Num.mul a b)) (Num.neg one) one := by
  simp only [Gen.inferCorr, Py.min, Py.max, Stats.clip, Corr.one, num_lt, num_neg, num_div, num_mul,
    num_ofNat, Nat.cast_one, decide_eq_true_eq] <;>
  first | rfl | (split_ifs <;> first | rfl | linarith | (exfalso; linarith))

/-! the three model functions in the vocabulary of the theorems -/

theorem getMeasured_unfold (s : State ℝ) (w : Which) (a b : Nat) :
    getMeasured s w a b =
      (let qa := qty s a
       let qb := qty s b
       if !qb.kind.isEV then .reject
       else if !qb.kind.measured then .num zero
       else if Num.isZero qa.std || Num.isZero qb.std then .num zero
       else if a = b then
         match w with
         | .corr => .num one
         | .cov => .num (Num.sq qa.std)
       else
         match lookup (key a b) s.store with
         | some r => .num (match w with | .corr => r.corr | .cov => r.cov)
         | none => .num zero) := by
  unfold getMeasured
  simp only [zeroSigmaGet_eq, selfAnswer_eq, nonMeasuredAnswer_eq, defaultAnswer_eq]
  cases w <;> dsimp only <;> (cases lookup (key a b) s.store <;> rfl)

theorem setMeasured_unfold (s : State ℝ) (w : Which) (a b : Nat) (v : Option ℝ) :
    setMeasured s w a b v =
      (let qa := qty s a
       let qb := qty s b
       if !qb.kind.isEV then (s, .reject)
       else if !qb.kind.measured then (s, .reject)
       else if Num.isZero qa.std || Num.isZero qb.std then (s, .reject)
       else
         match v with
         | none => (s, .reject)
         | some x =>
           match w with
           | .cov =>
             let c := Num.div x (Num.mul qa.std qb.std)
             if outOfRange c then (s, .reject)
             else (write s a b c x qa.std qb.std, .ok)
           | .corr =>
             if outOfRange x then (s, .reject)
             else (write s a b x (Num.mul x (Num.mul qa.std qb.std)) qa.std qb.std, .ok)) := by
  unfold setMeasured
  simp only [zeroSigmaSet_eq, corrOfCov_eq, covOfCorr_eq, covBoundBad_eq]
  cases v <;> cases w <;> rfl

theorem infer_unfold (qa qb : Qty ℝ) (w : Which) :
    infer qa qb w =
      (if qa.raw.length != qb.raw.length || !qa.plain || !qb.plain then none
       else
         let cov := Stats.cov1 qa.raw qb.raw
         let bound := Num.mul qa.std qb.std
         match w with
         | .cov => some (Stats.clip cov (Num.neg bound) bound)
         | .corr => some (Stats.clip (Num.div cov bound) (Num.neg one) one)) := by
  unfold infer
  simp only [inferCov_eq, inferCorr_eq]
  cases w <;> rfl

end QExPy.Corr

/-
  The printer's numbers read back (C13): `natStr`, `intStr`, the power text after `^`
  (`powText`), against `digitsVal`, `intVal`, `powerVal` and the lexical classes of the scanner.
-/
import QExPy.Lemmas.LexRound
import Mathlib.Data.Rat.Defs
import Mathlib.Tactic.Ring
import Mathlib.Tactic.Linarith
namespace QExPy.U

theorem isDg_digitChar : ∀ d, d < 10 → isDg (digitChar d) = true := by decide

theorem val_digitChar : ∀ d, d < 10 → (digitChar d).toNat - 48 = d := by decide

/-- one step of the decimal reading -/
def dstep (m : Nat) (c : Char) : Nat := 10 * m + (c.toNat - 48)

theorem digitsVal_eq (ds : List Char) : digitsVal ds = ds.foldl dstep 0 := rfl

theorem natStrAux_digits : ∀ (f n : Nat) (acc : List Char), (∀ c ∈ acc, isDg c = true) →
    ∀ c ∈ natStrAux f n acc, isDg c = true := by
  intro f
  induction f with
  | zero => intro n acc h; simpa [natStrAux] using h
  | succ f ih =>
    intro n acc h
    simp only [natStrAux]
    split
    · rename_i hlt
      intro c hc
      rcases List.mem_cons.mp hc with rfl | hc
      · exact isDg_digitChar n hlt
      · exact h c hc
    · refine ih _ _ ?_
      intro c hc
      rcases List.mem_cons.mp hc with rfl | hc
      · exact isDg_digitChar _ (Nat.mod_lt _ (by omega))
      · exact h c hc

theorem natStrAux_ne : ∀ (f n : Nat) (acc : List Char), acc ≠ [] → natStrAux f n acc ≠ [] := by
  intro f
  induction f with
  | zero => intro n acc h; simpa [natStrAux] using h
  | succ f ih =>
    intro n acc h
    simp only [natStrAux]
    split
    · simp
    · exact ih _ _ (by simp)

theorem natStrAux_val : ∀ (f n : Nat) (acc : List Char), n < f →
    (natStrAux f n acc).foldl dstep 0 = acc.foldl dstep n := by
  intro f
  induction f with
  | zero => intro n acc h; omega
  | succ f ih =>
    intro n acc h
    simp only [natStrAux]
    split
    · rename_i hlt
      simp only [List.foldl_cons, dstep, val_digitChar n hlt]
      simp
    · rename_i hge
      rw [ih _ _ (by omega)]
      simp only [List.foldl_cons, dstep, val_digitChar _ (Nat.mod_lt n (by omega : 10 > 0))]
      congr 1
      omega

theorem natStr_digits (n : Nat) : DigitsOK (natStr n) := by
  refine ⟨?_, natStrAux_digits _ _ _ (by simp)⟩
  simp only [natStr, natStrAux]
  split
  · simp
  · exact natStrAux_ne _ _ _ (by simp)

theorem digitsVal_natStr (n : Nat) : digitsVal (natStr n) = n := by
  rw [digitsVal_eq, natStr, natStrAux_val _ _ _ (by omega)]
  rfl

theorem intLit_intStr (i : Int) : IntLit (intStr i) := by
  unfold intStr
  split
  · exact Or.inr ⟨_, rfl, natStr_digits _⟩
  · exact Or.inl (natStr_digits _)

theorem intVal_digits (ds : List Char) (h : DigitsOK ds) : intVal ds = (digitsVal ds : Int) := by
  obtain ⟨hne, hall⟩ := h
  cases ds with
  | nil => exact absurd rfl hne
  | cons c r =>
    have hc : c ≠ '-' := ne_of_isDg (hall c (by simp)) (by decide)
    unfold intVal
    split
    · rename_i ds heq
      simp only [List.cons.injEq] at heq
      exact absurd heq.1 hc
    · rfl

theorem intVal_intStr (i : Int) : intVal (intStr i) = i := by
  unfold intStr
  split
  · rename_i h
    simp only [intVal, digitsVal_natStr]
    omega
  · rename_i h
    rw [intVal_digits _ (natStr_digits _), digitsVal_natStr]
    omega

/-- the text the printer writes after `^` -/
def powText (q : Rat) : List Char :=
  if q.den = 1 then intStr q.num
  else '(' :: (intStr q.num ++ '/' :: (natStr q.den ++ [')']))

theorem powerStr_eq (q : Rat) :
    powerStr q = if q.num = 1 ∧ q.den = 1 then [] else '^' :: powText q := by
  unfold powerStr powText
  split
  · rfl
  · split <;> simp

theorem powOK_powText (q : Rat) : PowOK (powText q) := by
  unfold powText
  split
  · exact Or.inl (intLit_intStr _)
  · exact Or.inr ⟨_, _, intLit_intStr _, natStr_digits _, rfl⟩

theorem intLit_head (e : List Char) (h : IntLit e) : ∃ c r, e = c :: r ∧ c ≠ '(' := by
  rcases h with ⟨hne, hall⟩ | ⟨d, rfl, _⟩
  · cases e with
    | nil => exact absurd rfl hne
    | cons c r => exact ⟨c, r, rfl, ne_of_isDg (hall c (by simp)) (by decide)⟩
  · exact ⟨'-', d, rfl, by decide⟩

theorem intLit_chars (e : List Char) (h : IntLit e) : ∀ c ∈ e, c ≠ ')' ∧ c ≠ '/' := by
  rcases h with ⟨_, hall⟩ | ⟨d, rfl, _, hall⟩
  · intro c hc
    exact ⟨ne_of_isDg (hall c hc) (by decide), ne_of_isDg (hall c hc) (by decide)⟩
  · intro c hc
    rcases List.mem_cons.mp hc with rfl | hc
    · exact ⟨by decide, by decide⟩
    · exact ⟨ne_of_isDg (hall c hc) (by decide), ne_of_isDg (hall c hc) (by decide)⟩

theorem rat_of_den_one (q : Rat) (h : q.den = 1) : (q.num : Rat) = q := by
  have := Rat.num_div_den q
  rw [h] at this
  simpa using this

theorem rat_eq_one (q : Rat) (h1 : q.num = 1) (h : q.den = 1) : q = 1 := by
  have := rat_of_den_one q h
  rw [h1] at this
  simpa using this.symm

/-- **the printed power reads back as the exponent** -/
theorem powerVal_powText (q : Rat) : powerVal (powText q) = some q := by
  unfold powText
  split
  · rename_i hd
    obtain ⟨c, r, he, hc⟩ := intLit_head _ (intLit_intStr q.num)
    have hv := intVal_intStr q.num
    rw [he] at hv ⊢
    unfold powerVal
    split
    · rename_i r' heq
      simp only [List.cons.injEq] at heq
      exact absurd heq.1 hc
    · rw [hv, rat_of_den_one q hd]
  · rename_i hd
    have hn := intLit_chars _ (intLit_intStr q.num)
    have hdg := natStr_digits q.den
    -- the body between the brackets
    have hbody : (intStr q.num ++ '/' :: (natStr q.den ++ [')'])).takeWhile (· != ')') =
        intStr q.num ++ '/' :: natStr q.den := by
      have := takeWhile_stop (· != ')') (intStr q.num ++ '/' :: natStr q.den) [')']
        (by
          intro c hc
          rcases List.mem_append.mp hc with hc | hc
          · simpa using (hn c hc).1
          · rcases List.mem_cons.mp hc with rfl | hc
            · decide
            · simpa using ne_of_isDg (hdg.2 c hc) (show isDg ')' = false by decide))
        (by simp [Stop])
      simpa using this
    have hnum : (intStr q.num ++ '/' :: natStr q.den).takeWhile (· != '/') = intStr q.num :=
      takeWhile_stop (· != '/') (intStr q.num) ('/' :: natStr q.den)
        (fun c hc => by simpa using (hn c hc).2) (by simp [Stop])
    have hden : (intStr q.num ++ '/' :: natStr q.den).dropWhile (· != '/') = '/' :: natStr q.den :=
      dropWhile_stop (· != '/') (intStr q.num) ('/' :: natStr q.den)
        (fun c hc => by simpa using (hn c hc).2) (by simp [Stop])
    simp only [powerVal, hbody, hnum, hden, List.drop_succ_cons, List.drop_zero, digitsVal_natStr,
      intVal_intStr]
    rw [if_neg q.den_nz]
    rw [Rat.num_div_den]

end QExPy.U

/- Helper lemmas for C16: the closed form of `cover`, the loop invariant of the mode walk. -/
import Mathlib.Algebra.BigOperators.Group.List.Basic
import Mathlib.Algebra.Order.BigOperators.Group.List
import Mathlib.Tactic.Ring
import Mathlib.Tactic.Linarith
import QExPy.Model.ModeWalk

namespace QExPy
namespace ModeWalk

theorem sum_filter_map (l : List Nat) (p : Nat → Bool) (f : Nat → Nat) :
    ((l.filter p).map f).sum = (l.map fun i => if p i then f i else 0).sum := by
  induction l with
  | nil => simp
  | cons x xs ih =>
    by_cases h : p x <;> simp [h, ih]

theorem sum_ite_eq_range (m a : Nat) (f : Nat → Nat) :
    ((List.range m).map fun i => if i = a then f i else 0).sum = if a < m then f a else 0 := by
  induction m with
  | zero => simp
  | succ m ih =>
    rw [List.range_succ, List.map_append, List.sum_append, ih]
    by_cases h1 : a < m
    · have : m ≠ a := by omega
      have h2 : a < m + 1 := by omega
      simp [h1, h2, this]
    · by_cases h2 : m = a
      · subst h2; simp
      · have : ¬ a < m + 1 := by omega
        simp [h1, h2, this]

/-- the indicator form of `cover` -/
theorem cover_eq (n : List Nat) (imax k : Nat) :
    cover n imax k =
      ((List.range n.length).map fun i => if imax ≤ i + k ∧ i ≤ imax + k then at' n i else 0).sum := by
  unfold cover
  rw [sum_filter_map]
  congr 1
  apply List.map_congr_left
  intro i _
  by_cases h1 : imax ≤ i + k <;> by_cases h2 : i ≤ imax + k <;> simp [h1, h2]

theorem at'_eq_zero (n : List Nat) (i : Nat) (h : n.length ≤ i) : at' n i = 0 := by
  unfold at'
  simp [List.getD_eq_getElem?_getD, List.getElem?_eq_none h]

/-- one more step of the walk adds exactly the two bins at distance k+1 that exist -/
theorem cover_succ (n : List Nat) (imax k : Nat) :
    cover n imax (k + 1) = cover n imax k + stepAdd n imax k := by
  rw [cover_eq, cover_eq]
  have hpt : ∀ i, (if imax ≤ i + (k + 1) ∧ i ≤ imax + (k + 1) then at' n i else 0)
      = (if imax ≤ i + k ∧ i ≤ imax + k then at' n i else 0)
        + ((if i = imax - (k + 1) then (if k + 1 ≤ imax then at' n i else 0) else 0)
        + (if i = imax + (k + 1) then at' n i else 0)) := by
    intro i
    split_ifs <;> omega
  have hfun : (fun i => if imax ≤ i + (k + 1) ∧ i ≤ imax + (k + 1) then at' n i else 0)
      = fun i => (if imax ≤ i + k ∧ i ≤ imax + k then at' n i else 0)
        + ((if i = imax - (k + 1) then (fun j => if k + 1 ≤ imax then at' n j else 0) i else 0)
        + (if i = imax + (k + 1) then at' n i else 0)) := funext hpt
  rw [hfun, List.sum_map_add, List.sum_map_add, sum_ite_eq_range, sum_ite_eq_range]
  unfold stepAdd
  congr 1
  congr 1
  · by_cases h : k + 1 ≤ imax
    · by_cases h2 : imax - (k + 1) < n.length
      · simp [h, h2]
      · simp [h, h2, at'_eq_zero n _ (Nat.le_of_not_lt h2)]
    · simp [h]

/-- the walk starts on the fullest bin -/
theorem cover_zero (n : List Nat) (imax : Nat) (h : imax < n.length) :
    cover n imax 0 = at' n imax := by
  rw [cover_eq]
  have : (fun i => if imax ≤ i + 0 ∧ i ≤ imax + 0 then at' n i else 0)
      = fun i => if i = imax then at' n i else 0 := by
    funext i
    split_ifs <;> omega
  rw [this, sum_ite_eq_range]
  simp [h]

theorem map_at'_range (n : List Nat) : (List.range n.length).map (at' n) = n := by
  apply List.ext_getElem
  · simp
  · intro i h1 h2
    simp [at', List.getD_eq_getElem?_getD, h2]

/-- once no bin is left on either side, everything is covered -/
theorem cover_all (n : List Nat) (imax k : Nat) (h : canGrow n imax k = false) :
    cover n imax k = total n := by
  have h' : ¬ k < imax ∧ ¬ imax + k + 1 < n.length := by
    simpa [canGrow] using h
  rw [cover_eq]
  have : ((List.range n.length).map fun i => if imax ≤ i + k ∧ i ≤ imax + k then at' n i else 0)
      = (List.range n.length).map (at' n) := by
    apply List.map_congr_left
    intro i hi
    have hi' : i < n.length := List.mem_range.mp hi
    have : imax ≤ i + k ∧ i ≤ imax + k := by omega
    simp [this]
  rw [this]
  unfold total
  rw [map_at'_range]

/-- the loop invariant: started with `count = cover k`, the loop returns `(k', cover k')` with
    no earlier `j ∈ [k, k')` enough, and stops because it is enough, nothing is left, or fuel ran out -/
theorem loop_spec (n : List Nat) (imax : Nat) (enough : Nat → Bool) :
    ∀ (fuel k : Nat),
      let r := loop n imax enough fuel k (cover n imax k)
      r.2 = cover n imax r.1 ∧ k ≤ r.1 ∧ r.1 ≤ k + fuel ∧
      (∀ j, k ≤ j → j < r.1 → enough (cover n imax j) = false ∧ canGrow n imax j = true) ∧
      (enough (cover n imax r.1) = true ∨ canGrow n imax r.1 = false ∨ r.1 = k + fuel) := by
  intro fuel
  induction fuel with
  | zero =>
    intro k
    have e : loop n imax enough 0 k (cover n imax k) = (k, cover n imax k) := rfl
    rw [e]
    refine ⟨rfl, Nat.le_refl _, Nat.le_refl _, ?_, Or.inr (Or.inr rfl)⟩
    intro j h1 h2; omega
  | succ fuel ih =>
    intro k
    have e : loop n imax enough (fuel + 1) k (cover n imax k)
        = if (!enough (cover n imax k) && canGrow n imax k) = true then
            loop n imax enough fuel (k + 1) (cover n imax k + stepAdd n imax k)
          else (k, cover n imax k) := rfl
    rw [e]
    by_cases hc : (!enough (cover n imax k) && canGrow n imax k) = true
    · rw [if_pos hc, ← cover_succ]
      obtain ⟨h1, h2, h3, h4, h5⟩ := ih (k + 1)
      have hc' : enough (cover n imax k) = false ∧ canGrow n imax k = true := by
        simpa using hc
      refine ⟨h1, by omega, by omega, ?_, ?_⟩
      · intro j hj1 hj2
        by_cases hjk : j = k
        · subst hjk; exact hc'
        · exact h4 j (by omega) hj2
      · rcases h5 with h | h | h
        · exact Or.inl h
        · exact Or.inr (Or.inl h)
        · exact Or.inr (Or.inr (by omega))
    · rw [if_neg hc]
      refine ⟨rfl, Nat.le_refl _, by omega, ?_, ?_⟩
      · intro j h1 h2; omega
      · by_cases he : enough (cover n imax k) = true
        · exact Or.inl he
        · have : canGrow n imax k = false := by
            cases hg : canGrow n imax k
            · rfl
            · simp [he, hg] at hc
          exact Or.inr (Or.inl this)

end ModeWalk
end QExPy

namespace QExPy
namespace ModeWalk

theorem at'_append_left (a b : List Nat) (i : Nat) (h : i < a.length) : at' (a ++ b) i = at' a i := by
  simp [at', List.getD_eq_getElem?_getD, List.getElem?_append_left h]

theorem at'_append_len (a : List Nat) (x : Nat) (b : List Nat) : at' (a ++ x :: b) a.length = x := by
  simp [at', List.getD_eq_getElem?_getD]

/-- invariant of `n.argmax()`: `best` is the value at `bestIdx`, nothing seen so far is larger,
    nothing before `bestIdx` is as large -/
theorem argmaxFrom_spec (xs : List Nat) :
    ∀ (pre : List Nat) (best bestIdx : Nat),
      bestIdx < pre.length → at' (pre ++ xs) bestIdx = best →
      (∀ i, i < pre.length → at' (pre ++ xs) i ≤ best) →
      (∀ i, i < bestIdx → at' (pre ++ xs) i < best) →
      let r := argmaxFrom xs pre.length best bestIdx
      r < (pre ++ xs).length ∧ (∀ i, i < (pre ++ xs).length → at' (pre ++ xs) i ≤ at' (pre ++ xs) r) ∧
        ∀ i, i < r → at' (pre ++ xs) i < at' (pre ++ xs) r := by
  induction xs with
  | nil =>
    intro pre best bestIdx h1 h2 h3 h4
    simp only [argmaxFrom, List.append_nil] at *
    refine ⟨h1, ?_, ?_⟩
    · intro i hi; rw [h2]; exact h3 i hi
    · intro i hi; rw [h2]; exact h4 i hi
  | cons x xs ih =>
    intro pre best bestIdx h1 h2 h3 h4
    have hassoc : pre ++ x :: xs = (pre ++ [x]) ++ xs := by simp
    have hlen : (pre ++ [x]).length = pre.length + 1 := by simp
    have hx : at' (pre ++ x :: xs) pre.length = x := at'_append_len pre x xs
    simp only [argmaxFrom]
    by_cases hb : best < x
    · rw [if_pos hb]
      have := ih (pre ++ [x]) x pre.length (by simp) (by rw [← hassoc]; exact hx)
        (by
          intro i hi
          rw [← hassoc]
          rw [hlen] at hi
          by_cases hi' : i < pre.length
          · have := h3 i hi'; omega
          · have : i = pre.length := by omega
            subst this; rw [hx])
        (by
          intro i hi
          rw [← hassoc]
          have := h3 i hi; omega)
      rw [hlen, ← hassoc] at this
      exact this
    · rw [if_neg hb]
      have := ih (pre ++ [x]) best bestIdx (by simp; omega) (by rw [← hassoc]; exact h2)
        (by
          intro i hi
          rw [← hassoc]
          rw [hlen] at hi
          by_cases hi' : i < pre.length
          · exact h3 i hi'
          · have : i = pre.length := by omega
            subst this; rw [hx]; omega)
        (by
          intro i hi
          rw [← hassoc]
          exact h4 i hi)
      rw [hlen, ← hassoc] at this
      exact this

theorem argmax_spec (n : List Nat) (hn : n ≠ []) :
    argmax n < n.length ∧ (∀ i, at' n i ≤ at' n (argmax n)) ∧
      ∀ i, i < argmax n → at' n i < at' n (argmax n) := by
  cases n with
  | nil => exact absurd rfl hn
  | cons x xs =>
    have h := argmaxFrom_spec xs [x] x 0 (by simp) (by simp [at']) (by
      intro i hi
      have : i = 0 := by simpa using hi
      subst this; simp [at']) (by intro i hi; omega)
    simp only [List.length_singleton, List.singleton_append] at h
    refine ⟨h.1, ?_, h.2.2⟩
    intro i
    by_cases hi : i < (x :: xs).length
    · exact h.2.1 i hi
    · rw [at'_eq_zero _ _ (Nat.le_of_not_lt hi)]; exact Nat.zero_le _

end ModeWalk
end QExPy

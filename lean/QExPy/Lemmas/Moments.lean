/- Helper definitions/lemmas for C02: exact sample moments of affine images of the offsets
   (finite sums only — no probability). -/
import Mathlib.Algebra.BigOperators.Field
import Mathlib.Algebra.BigOperators.Ring.Finset
import Mathlib.Data.Real.Basic
import Mathlib.Data.Fintype.BigOperators
import Mathlib.Tactic.Ring
import Mathlib.Tactic.FieldSimp
import Mathlib.Tactic.Linarith

namespace QExPy
namespace Moments
open Finset

variable {κ : Type} [Fintype κ] {ι : Type} [Fintype ι]

/-- sample mean over the draws -/
noncomputable def sMean (f : κ → ℝ) : ℝ := (∑ j, f j) / (Fintype.card κ : ℝ)

/-- sample covariance with the n − 1 denominator -/
noncomputable def sCov (f g : κ → ℝ) : ℝ :=
  (∑ j, (f j - sMean f) * (g j - sMean g)) / ((Fintype.card κ : ℝ) - 1)

/-- X_i j = μ_i + σ_i · Σ_k L_ik Z_kj : what the library feeds to the formula -/
def draws (μ σ : ι → ℝ) (L : ι → ι → ℝ) (Z : ι → κ → ℝ) (i : ι) (j : κ) : ℝ :=
  μ i + σ i * ∑ k, L i k * Z k j

theorem sMean_draws (hN : 0 < Fintype.card κ) (μ σ : ι → ℝ) (L : ι → ι → ℝ) (Z : ι → κ → ℝ) (i : ι) :
    sMean (draws μ σ L Z i) = μ i + σ i * ∑ k, L i k * sMean (Z k) := by
  have hN' : (Fintype.card κ : ℝ) ≠ 0 := by exact_mod_cast hN.ne'
  unfold sMean draws
  rw [Finset.sum_add_distrib, Finset.sum_const, Finset.card_univ, nsmul_eq_mul, ← Finset.mul_sum,
    Finset.sum_comm]
  have : ∀ k, ∑ j, L i k * Z k j = L i k * ∑ j, Z k j := fun k => (Finset.mul_sum _ _ _).symm
  simp only [this]
  have h2 : ∀ k, L i k * ((∑ j, Z k j) / (Fintype.card κ : ℝ)) = (L i k * ∑ j, Z k j) / (Fintype.card κ : ℝ) :=
    fun k => by ring
  simp only [h2, ← Finset.sum_div]
  field_simp

theorem centered_draws (hN : 0 < Fintype.card κ) (μ σ : ι → ℝ) (L : ι → ι → ℝ) (Z : ι → κ → ℝ)
    (i : ι) (j : κ) :
    draws μ σ L Z i j - sMean (draws μ σ L Z i) = σ i * ∑ k, L i k * (Z k j - sMean (Z k)) := by
  rw [sMean_draws hN]
  unfold draws
  simp only [mul_sub, Finset.sum_sub_distrib]
  ring

theorem sCov_draws (hN : 0 < Fintype.card κ) (μ σ : ι → ℝ) (L : ι → ι → ℝ) (Z : ι → κ → ℝ) (a b : ι) :
    sCov (draws μ σ L Z a) (draws μ σ L Z b)
      = σ a * σ b * ∑ k, ∑ l, L a k * L b l * sCov (Z k) (Z l) := by
  unfold sCov
  simp only [centered_draws hN]
  have h1 : ∀ j, (σ a * ∑ k, L a k * (Z k j - sMean (Z k))) * (σ b * ∑ l, L b l * (Z l j - sMean (Z l)))
      = σ a * σ b * ∑ k, ∑ l, L a k * L b l * ((Z k j - sMean (Z k)) * (Z l j - sMean (Z l))) := by
    intro j
    rw [mul_mul_mul_comm, Finset.sum_mul_sum]
    congr 1
    apply Finset.sum_congr rfl; intro k _
    apply Finset.sum_congr rfl; intro l _
    ring
  simp only [h1]
  rw [← Finset.mul_sum, Finset.sum_comm]
  have h2 : ∀ k, ∑ j, ∑ l, L a k * L b l * ((Z k j - sMean (Z k)) * (Z l j - sMean (Z l)))
      = ∑ l, L a k * L b l * ∑ j, (Z k j - sMean (Z k)) * (Z l j - sMean (Z l)) := by
    intro k
    rw [Finset.sum_comm]
    apply Finset.sum_congr rfl; intro l _
    rw [Finset.mul_sum]
  simp only [h2]
  rw [mul_div_assoc, Finset.sum_div]
  congr 1
  apply Finset.sum_congr rfl; intro k _
  rw [Finset.sum_div]
  apply Finset.sum_congr rfl; intro l _
  ring

end Moments
end QExPy

/- Helper lemmas about the unit algebra model (used by Props/C08, C18). -/
import QExPy.Model.Units
import Mathlib.Data.List.Perm.Subperm
namespace QExPy.U

theorem expOf_nil (s : Sym) : expOf [] s = 0 := rfl

theorem expOf_cons (k : Sym) (v : Rat) (r : Units) (s : Sym) :
    expOf ((k, v) :: r) s = if k = s then v else expOf r s := rfl

theorem hasKey_iff_mem (u : Units) (s : Sym) : hasKey u s = true ↔ s ∈ u.map Prod.fst := by
  induction u with
  | nil => simp [hasKey]
  | cons p r ih =>
    obtain ⟨k, v⟩ := p
    by_cases h : k = s
    · simp [hasKey, h]
    · simp [hasKey, h, ih]; exact fun h' => absurd h'.symm h

theorem expOf_eq_zero_of_not_mem (u : Units) (s : Sym) (h : s ∉ u.map Prod.fst) :
    expOf u s = 0 := by
  induction u with
  | nil => rfl
  | cons p r ih =>
    obtain ⟨k, v⟩ := p
    simp only [List.map_cons, List.mem_cons, not_or] at h
    have hk : ¬ k = s := fun e => h.1 e.symm
    simp [expOf_cons, hk, ih h.2]

theorem expOf_of_mem (u : Units) (hw : WF u) (k : Sym) (e : Rat) (h : (k, e) ∈ u) :
    expOf u k = e := by
  induction u with
  | nil => cases h
  | cons p r ih =>
    obtain ⟨k', v⟩ := p
    simp only [WF, List.map_cons, List.nodup_cons] at hw
    rcases List.mem_cons.mp h with h | h
    · cases h; simp [expOf_cons]
    · have : k ∈ r.map Prod.fst := List.mem_map.mpr ⟨(k, e), h, rfl⟩
      have hne : ¬ k' = k := fun e' => hw.1 (e' ▸ this)
      simp [expOf_cons, hne, ih hw.2 h]

/-- what `__update_unit_exponent_count_in_dict` does to the exponents -/
theorem expOf_upd (u : Units) (s : Sym) (c : Rat) (t : Sym) :
    expOf (upd u s c) t = expOf u t + (if s = t then c else 0) := by
  induction u with
  | nil => simp [upd, expOf_cons, expOf_nil, Rat.zero_add]
  | cons p r ih =>
    obtain ⟨k, v⟩ := p
    by_cases hks : k = s
    · subst hks
      by_cases hkt : k = t
      · simp [upd, expOf_cons, hkt]
      · simp [upd, expOf_cons, hkt, Rat.add_zero]
    · by_cases hkt : k = t
      · subst hkt
        simp [upd, expOf_cons, hks, Ne.symm hks, Rat.add_zero]
      · simp [upd, expOf_cons, hks, hkt, ih]

theorem keys_upd (u : Units) (s : Sym) (c : Rat) :
    (upd u s c).map Prod.fst = if s ∈ u.map Prod.fst then u.map Prod.fst else u.map Prod.fst ++ [s] := by
  induction u with
  | nil => simp [upd]
  | cons p r ih =>
    obtain ⟨k, v⟩ := p
    by_cases hks : k = s
    · subst hks; simp [upd]
    · have : ¬ s = k := fun e => hks e.symm
      simp only [upd, hks, if_false, List.map_cons, ih, List.mem_cons, this, false_or]
      split <;> simp

theorem WF_upd (u : Units) (s : Sym) (c : Rat) (h : WF u) : WF (upd u s c) := by
  unfold WF at *
  rw [keys_upd]
  split
  · exact h
  · rename_i hs
    rw [List.nodup_append]
    refine ⟨h, by simp, ?_⟩
    intro a ha b hb
    simp only [List.mem_singleton] at hb
    subst hb
    exact fun e => hs (e ▸ ha)

theorem WF_merge (acc v : Units) (sg : Rat) (h : WF acc) : WF (merge acc v sg) := by
  induction v generalizing acc with
  | nil => simpa [merge] using h
  | cons p r ih =>
    obtain ⟨k, e⟩ := p
    simp only [merge]
    exact ih _ (WF_upd _ _ _ h)

theorem WF_nil : WF [] := by simp [WF]

theorem WF_tail {p : Sym × Rat} {r : Units} (h : WF (p :: r)) : WF r := by
  simp only [WF, List.map_cons, List.nodup_cons] at h
  exact h.2

/-- `merge` adds `sg ·` every exponent of `v` -/
theorem expOf_merge (acc v : Units) (sg : Rat) (t : Sym) (hv : WF v) :
    expOf (merge acc v sg) t = expOf acc t + sg * expOf v t := by
  induction v generalizing acc with
  | nil => simp [merge, expOf_nil, Rat.mul_zero, Rat.add_zero]
  | cons p r ih =>
    obtain ⟨k, e⟩ := p
    have hr : WF r := WF_tail hv
    simp only [merge]
    rw [ih _ hr, expOf_upd, expOf_cons]
    by_cases hkt : k = t
    · subst hkt
      have : k ∉ r.map Prod.fst := by
        simp only [WF, List.map_cons, List.nodup_cons] at hv
        exact hv.1
      rw [expOf_eq_zero_of_not_mem r k this]
      simp [Rat.mul_zero, Rat.add_zero]
    · simp [hkt, Rat.add_zero]

theorem expOf_mul (u v : Units) (t : Sym) (hu : WF u) (hv : WF v) :
    expOf (mul u v) t = expOf u t + expOf v t := by
  simp [mul, expOf_merge _ _ _ _ hu, expOf_merge _ _ _ _ hv, expOf_nil, Rat.zero_add, Rat.one_mul]

theorem expOf_div (u v : Units) (t : Sym) (hu : WF u) (hv : WF v) :
    expOf (div u v) t = expOf u t - expOf v t := by
  simp only [div, expOf_merge _ _ _ _ hu, expOf_merge _ _ _ _ hv, expOf_nil]
  grind

theorem WF_mul (u v : Units) : WF (mul u v) := WF_merge _ _ _ (WF_merge _ _ _ WF_nil)
theorem WF_div (u v : Units) : WF (div u v) := WF_merge _ _ _ (WF_merge _ _ _ WF_nil)

theorem expOf_map (u : Units) (f : Rat → Rat) (hf : f 0 = 0) (t : Sym) :
    expOf (u.map fun (k, e) => (k, f e)) t = f (expOf u t) := by
  induction u with
  | nil => simp [expOf_nil, hf]
  | cons p r ih =>
    obtain ⟨k, e⟩ := p
    by_cases hkt : k = t <;> simp [expOf_cons, hkt, ih]

theorem keys_map (u : Units) (f : Rat → Rat) :
    (u.map fun (k, e) => (k, f e)).map Prod.fst = u.map Prod.fst := by
  induction u with
  | nil => rfl
  | cons p r ih => obtain ⟨k, e⟩ := p; simp [ih]

theorem expOf_sqrtU (u : Units) (t : Sym) : expOf (sqrtU u) t = expOf u t / 2 := by
  have := expOf_map u (fun e => e / 2) (by grind) t
  simpa [sqrtU] using this

theorem expOf_powConst (u : Units) (k : Rat) (t : Sym) : expOf (powConst u k) t = expOf u t * k := by
  have := expOf_map u (fun e => e * k) (by grind) t
  simpa [powConst] using this

theorem WF_sqrtU (u : Units) (h : WF u) : WF (sqrtU u) := by
  unfold WF sqrtU; rw [keys_map u (fun e => e / 2)]; exact h

theorem WF_powConst (u : Units) (k : Rat) (h : WF u) : WF (powConst u k) := by
  unfold WF powConst; rw [keys_map u (fun e => e * k)]; exact h

theorem WF_filterZero (u : Units) (h : WF u) : WF (filterZero u) := by
  unfold WF filterZero at *
  exact (List.filter_sublist.map Prod.fst).nodup h

/-- cancelled symbols disappear, nothing else changes -/
theorem expOf_filterZero (u : Units) (t : Sym) (h : WF u) :
    expOf (filterZero u) t = expOf u t := by
  induction u with
  | nil => rfl
  | cons p r ih =>
    obtain ⟨k, e⟩ := p
    have hr := WF_tail h
    by_cases he : e = 0
    · subst he
      have : filterZero ((k, 0) :: r) = filterZero r := by simp [filterZero]
      rw [this, ih hr, expOf_cons]
      by_cases hkt : k = t
      · subst hkt
        simp only [WF, List.map_cons, List.nodup_cons] at h
        simp [expOf_eq_zero_of_not_mem r k h.1]
      · simp [hkt]
    · have : filterZero ((k, e) :: r) = (k, e) :: filterZero r := by simp [filterZero, he]
      rw [this, expOf_cons, expOf_cons, ih hr]

/-- no entry of the list carries exponent 0 -/
def NoZero (u : Units) : Prop := ∀ p ∈ u, p.2 ≠ 0

theorem NoZero_filterZero (u : Units) : NoZero (filterZero u) := by
  intro p hp
  simp only [filterZero, List.mem_filter] at hp
  simpa using hp.2

theorem mem_keys_of_expOf_ne_zero (u : Units) (s : Sym) (h : expOf u s ≠ 0) :
    s ∈ u.map Prod.fst := by
  by_contra hn
  exact h (expOf_eq_zero_of_not_mem u s hn)

theorem expOf_ne_zero_of_mem_keys (u : Units) (hw : WF u) (hz : NoZero u) (s : Sym)
    (h : s ∈ u.map Prod.fst) : expOf u s ≠ 0 := by
  obtain ⟨p, hp, rfl⟩ := List.mem_map.mp h
  obtain ⟨k, e⟩ := p
  rw [expOf_of_mem u hw k e hp]
  exact hz _ hp

/-- `dict(a) == dict(b)` decides dimensional equality on key-unique maps without zero entries -/
theorem dictEq_iff (u v : Units) (hu : WF u) (hv : WF v) (zu : NoZero u) (zv : NoZero v) :
    dictEq u v = true ↔ Equiv u v := by
  constructor
  · intro h
    simp only [dictEq, Bool.and_eq_true, beq_iff_eq, List.all_eq_true] at h
    obtain ⟨hlen, hall⟩ := h
    have hsub : u.map Prod.fst ⊆ v.map Prod.fst := by
      intro s hs
      obtain ⟨p, hp, rfl⟩ := List.mem_map.mp hs
      have := hall p hp
      obtain ⟨k, e⟩ := p
      simp only [Bool.and_eq_true, beq_iff_eq] at this
      exact (hasKey_iff_mem v k).mp this.1
    have hperm : (u.map Prod.fst).Perm (v.map Prod.fst) := by
      have hsp : List.Subperm (u.map Prod.fst) (v.map Prod.fst) :=
        List.subperm_of_subset hu hsub
      exact hsp.perm_of_length_le (by simp [hlen])
    intro s
    by_cases hs : s ∈ u.map Prod.fst
    · obtain ⟨p, hp, rfl⟩ := List.mem_map.mp hs
      have := hall p hp
      obtain ⟨k, e⟩ := p
      simp only [Bool.and_eq_true, beq_iff_eq] at this
      rw [expOf_of_mem u hu k e hp, this.2]
    · have hs' : s ∉ v.map Prod.fst := fun h' => hs (hperm.mem_iff.mpr h')
      rw [expOf_eq_zero_of_not_mem u s hs, expOf_eq_zero_of_not_mem v s hs']
  · intro h
    have hsub : ∀ (a b : Units), WF a → NoZero a → (∀ s, expOf a s = expOf b s) →
        a.map Prod.fst ⊆ b.map Prod.fst := by
      intro a b ha za hab s hs
      have := expOf_ne_zero_of_mem_keys a ha za s hs
      exact mem_keys_of_expOf_ne_zero b s (hab s ▸ this)
    have h1 := hsub u v hu zu h
    have h2 := hsub v u hv zv (fun s => (h s).symm)
    have hlen : u.length = v.length := by
      have a := (List.subperm_of_subset hu h1).length_le
      have b := (List.subperm_of_subset hv h2).length_le
      simp at a b; omega
    simp only [dictEq, Bool.and_eq_true, beq_iff_eq, List.all_eq_true]
    refine ⟨hlen, ?_⟩
    intro p hp
    obtain ⟨k, e⟩ := p
    simp only [Bool.and_eq_true, beq_iff_eq]
    have hk : k ∈ u.map Prod.fst := List.mem_map.mpr ⟨(k, e), hp, rfl⟩
    refine ⟨(hasKey_iff_mem v k).mpr (h1 hk), ?_⟩
    rw [← h k, expOf_of_mem u hu k e hp]

theorem Equiv_filterZero (u : Units) (h : WF u) : Equiv (filterZero u) u :=
  fun t => expOf_filterZero u t h

end QExPy.U

namespace QExPy.U

/-! ### `operate_with_units` without definitions -/

theorem foldlM_unpack_nil (f : Nat) (u acc : Units) (c : Rat) :
    u.foldlM (fun acc (p : Sym × Rat) =>
      match lookupDef [] p.1 with
      | none => some (upd acc p.1 (p.2 * c))
      | some d => (unpackD [] f d (p.2 * c)).map fun un => merge acc un 1) acc
    = some (merge acc u c) := by
  induction u generalizing acc with
  | nil => simp [merge]
  | cons p r ih =>
    obtain ⟨k, e⟩ := p
    simp only [List.foldlM_cons, lookupDef, merge]
    rw [Rat.mul_comm e c]
    exact ih _

theorem unpack_nil (u : Units) : unpack [] u = some (merge [] u 1) := by
  simp only [unpack, List.length_nil, Nat.zero_add, unpackD]
  exact foldlM_unpack_nil 0 u [] 1

theorem expOf_unpacked (u : Units) (h : WF u) (t : Sym) : expOf (merge [] u 1) t = expOf u t := by
  rw [expOf_merge _ _ _ _ h]; simp [expOf_nil, Rat.zero_add, Rat.one_mul]

theorem WF_unpacked (u : Units) : WF (merge [] u 1) := WF_merge _ _ _ WF_nil

theorem packOr_nil (u : Units) : packOr [] u = u := by simp [packOr, firstPack]

theorem merge_nil_eq_nil (u : Units) (c : Rat) : merge [] u c = [] ↔ u = [] := by
  cases u with
  | nil => simp [merge]
  | cons p r =>
    obtain ⟨k, e⟩ := p
    simp only [merge, upd, reduceCtorEq, iff_false]
    intro h
    have hw : k ∈ (merge [(k, c * e)] r c).map Prod.fst := by
      have : ∀ (acc : Units) (v : Units), k ∈ acc.map Prod.fst → k ∈ (merge acc v c).map Prod.fst := by
        intro acc v
        induction v generalizing acc with
        | nil => simp [merge]
        | cons q rr ih =>
          obtain ⟨k', e'⟩ := q
          intro hk
          simp only [merge]
          apply ih
          rw [keys_upd]
          split
          · exact hk
          · exact List.mem_append_left _ hk
      exact this _ _ (by simp)
    rw [h] at hw
    simp at hw

end QExPy.U

namespace QExPy.U

theorem guarded_true (op : String) (ops : List (Units × Bool × Nat)) (w : Nat)
    (h : ops.all (fun r => !r.1.isEmpty || r.2.1) = true) :
    guarded [] op ops w = (operate [] op (ops.map (·.1))).map
      (fun r => (r.1, false, w + (if r.2 then 1 else 0))) := by
  unfold guarded
  rw [if_pos h]
  cases operate [] op (ops.map (·.1)) <;> rfl

theorem operate_nil1 (op : String) (a : Units) :
    operate [] op [a] = (dispatch op [merge [] a 1]).map fun r => (filterZero r.1, r.2) := by
  simp only [operate, List.mapM_cons, List.mapM_nil, unpack_nil, bind, Option.bind, pure, packOr_nil]
  cases dispatch op [merge [] a 1] <;> rfl

theorem operate_nil2 (op : String) (a b : Units) :
    operate [] op [a, b] =
      (dispatch op [merge [] a 1, merge [] b 1]).map fun r => (filterZero r.1, r.2) := by
  simp only [operate, List.mapM_cons, List.mapM_nil, unpack_nil, bind, Option.bind, pure, packOr_nil]
  cases dispatch op [merge [] a 1, merge [] b 1] <;> rfl

end QExPy.U

namespace QExPy.U

/-- Σ p.2 * D p.1 t -/
def sumD (D : Sym → Sym → Rat) (u : Units) (t : Sym) : Rat :=
  sumRat (u.map fun (p : Sym × Rat) => p.2 * D p.1 t)

theorem sumD_nil (D : Sym → Sym → Rat) (t : Sym) : sumD D [] t = 0 := rfl

theorem sumD_cons (D : Sym → Sym → Rat) (k : Sym) (e : Rat) (r : Units) (t : Sym) :
    sumD D ((k, e) :: r) t = e * D k t + sumD D r t := rfl

/-- `D` satisfies the unfolding equations of the definitions -/
def Unfolds (defs : Defs) (D : Sym → Sym → Rat) : Prop :=
  (∀ s, lookupDef defs s = none → ∀ t, D s t = if s = t then 1 else 0) ∧
  (∀ s d, lookupDef defs s = some d → ∀ t, D s t = sumD D d t)

/-- `rank` is positive on defined names and decreases along definitions -/
def Ranked (defs : Defs) (rank : Sym → Nat) : Prop :=
  ∀ s d, lookupDef defs s = some d → 1 ≤ rank s ∧ ∀ p ∈ d, rank p.1 < rank s

theorem keys_merge_subset (acc v : Units) (sg : Rat) :
    ∀ k ∈ (merge acc v sg).map Prod.fst, k ∈ acc.map Prod.fst ∨ k ∈ v.map Prod.fst := by
  induction v generalizing acc with
  | nil => intro k hk; exact Or.inl (by simpa [merge] using hk)
  | cons q r ih =>
    obtain ⟨k', e'⟩ := q
    intro k hk
    simp only [merge] at hk
    rcases ih _ k hk with h | h
    · rw [keys_upd] at h
      split at h
      · exact Or.inl h
      · rcases List.mem_append.mp h with h | h
        · exact Or.inl h
        · simp at h; subst h; exact Or.inr (by simp)
    · exact Or.inr (by simp [h])

theorem unpackD_sound (defs : Defs) (D : Sym → Sym → Rat) (rank : Sym → Nat)
    (hD : Unfolds defs D) (hR : Ranked defs rank) :
    ∀ (f : Nat) (u : Units) (c : Rat), (∀ p ∈ u, rank p.1 ≤ f) →
      ∃ r, unpackD defs (f + 1) u c = some r ∧ WF r ∧ (∀ t, expOf r t = c * sumD D u t) ∧
        ∀ k ∈ r.map Prod.fst, lookupDef defs k = none := by
  intro f
  induction f using Nat.strongRecOn with
  | _ f ih =>
    intro u c hu
    -- the fold, with a general accumulator
    have hfold : ∀ (u : Units) (acc : Units), (∀ p ∈ u, rank p.1 ≤ f) → WF acc →
        (∀ k ∈ acc.map Prod.fst, lookupDef defs k = none) →
        ∃ r, u.foldlM (fun acc (p : Sym × Rat) =>
            match lookupDef defs p.1 with
            | none => some (upd acc p.1 (p.2 * c))
            | some d => (unpackD defs f d (p.2 * c)).map fun un => merge acc un 1) acc = some r ∧
          WF r ∧ (∀ t, expOf r t = expOf acc t + c * sumD D u t) ∧
          ∀ k ∈ r.map Prod.fst, lookupDef defs k = none := by
      intro u
      induction u with
      | nil =>
        intro acc _ hw hn
        exact ⟨acc, rfl, hw, fun t => by simp [sumD_nil, Rat.mul_zero, Rat.add_zero], hn⟩
      | cons p r ihu =>
        obtain ⟨name, e⟩ := p
        intro acc hu hw hn
        have hur : ∀ p ∈ r, rank p.1 ≤ f := fun p hp => hu p (List.mem_cons_of_mem _ hp)
        simp only [List.foldlM_cons]
        cases hl : lookupDef defs name with
        | none =>
          simp only [Option.bind_eq_bind, Option.bind]
          have hn' : ∀ k ∈ (upd acc name (e * c)).map Prod.fst, lookupDef defs k = none := by
            intro k hk
            rw [keys_upd] at hk
            split at hk
            · exact hn k hk
            · rcases List.mem_append.mp hk with hk | hk
              · exact hn k hk
              · simp at hk; subst hk; exact hl
          obtain ⟨r', h1, h2, h3, h4⟩ := ihu (upd acc name (e * c)) hur (WF_upd _ _ _ hw) hn'
          refine ⟨r', h1, h2, fun t => ?_, h4⟩
          rw [h3 t, expOf_upd, sumD_cons, hD.1 name hl t]
          by_cases hnt : name = t <;> simp [hnt] <;> grind
        | some d =>
          have hrk := hR name d hl
          have hname : rank name ≤ f := hu (name, e) (by simp)
          obtain ⟨f', hf'⟩ : ∃ f', f = f' + 1 := ⟨f - 1, by omega⟩
          subst hf'
          have hd : ∀ p ∈ d, rank p.1 ≤ f' := fun p hp => by
            have := hrk.2 p hp; omega
          obtain ⟨un, g1, g2, g3, g4⟩ := ih f' (by omega) d (e * c) hd
          simp only [g1, Option.map_some, Option.bind_eq_bind, Option.bind]
          have hn' : ∀ k ∈ (merge acc un 1).map Prod.fst, lookupDef defs k = none := by
            intro k hk
            rcases keys_merge_subset acc un 1 k hk with h | h
            · exact hn k h
            · exact g4 k h
          obtain ⟨r', h1, h2, h3, h4⟩ := ihu (merge acc un 1) hur (WF_merge _ _ _ hw) hn'
          refine ⟨r', h1, h2, fun t => ?_, h4⟩
          rw [h3 t, expOf_merge _ _ _ _ g2, g3 t, sumD_cons, hD.2 name d hl t]
          grind
    obtain ⟨r, h1, h2, h3, h4⟩ := hfold u [] hu WF_nil (by simp)
    refine ⟨r, ?_, h2, fun t => ?_, h4⟩
    · rw [unpackD]; exact h1
    · rw [h3 t]; simp [expOf_nil, Rat.zero_add]

end QExPy.U

namespace QExPy.U

/-- definitions, latest first: no definition mentions its own name or a name defined later,
    names are unique -/
def OrderedR : Defs → Prop
  | [] => True
  | (n, d) :: older =>
    (∀ p ∈ d, p.1 ≠ n) ∧ (∀ q ∈ older, q.1 ≠ n ∧ ∀ p ∈ q.2, p.1 ≠ n) ∧ OrderedR older

def rankR : Defs → Sym → Nat
  | [], _ => 0
  | (n, _) :: older, s => if s = n then older.length + 1 else rankR older s

theorem rankR_le (rdefs : Defs) (s : Sym) : rankR rdefs s ≤ rdefs.length := by
  induction rdefs with
  | nil => simp [rankR]
  | cons q older ih =>
    obtain ⟨n, d⟩ := q
    simp only [rankR, List.length_cons]
    split <;> omega

theorem lookupDef_append (xs : Defs) (n : Sym) (d : Units) (s : Sym) :
    lookupDef (xs ++ [(n, d)]) s =
      match lookupDef xs s with
      | some x => some x
      | none => if n = s then some d else none := by
  induction xs with
  | nil => simp [lookupDef]
  | cons q r ih =>
    obtain ⟨n', d'⟩ := q
    simp only [List.cons_append, lookupDef]
    split
    · rfl
    · exact ih

theorem lookupDef_none_of_names (xs : Defs) (n : Sym) (h : ∀ q ∈ xs, q.1 ≠ n) :
    lookupDef xs n = none := by
  induction xs with
  | nil => rfl
  | cons q r ih =>
    obtain ⟨n', d'⟩ := q
    have h1 : n' ≠ n := h (n', d') (by simp)
    simp only [lookupDef, h1, if_false]
    exact ih fun q hq => h q (List.mem_cons_of_mem _ hq)

theorem mem_of_lookupDef (xs : Defs) (s : Sym) (d : Units) (h : lookupDef xs s = some d) :
    (s, d) ∈ xs := by
  induction xs with
  | nil => cases h
  | cons q r ih =>
    obtain ⟨n', d'⟩ := q
    simp only [lookupDef] at h
    split at h
    · rename_i hn; cases h; subst hn; simp
    · exact List.mem_cons_of_mem _ (ih h)

theorem lookupDef_reverse (rdefs : Defs) (h : OrderedR rdefs) (s : Sym) :
    lookupDef rdefs.reverse s = lookupDef rdefs s := by
  induction rdefs with
  | nil => rfl
  | cons q older ih =>
    obtain ⟨n, d⟩ := q
    obtain ⟨_, h2, h3⟩ := h
    rw [List.reverse_cons, lookupDef_append, ih h3]
    simp only [lookupDef]
    by_cases hns : n = s
    · subst hns
      rw [lookupDef_none_of_names older n fun q hq => (h2 q hq).1]
    · simp only [hns, if_false]
      cases lookupDef older s <;> rfl

theorem sumD_congr (D D' : Sym → Sym → Rat) (d : Units) (t : Sym)
    (h : ∀ p ∈ d, D p.1 t = D' p.1 t) : sumD D d t = sumD D' d t := by
  induction d with
  | nil => rfl
  | cons p r ih =>
    obtain ⟨k, e⟩ := p
    rw [sumD_cons, sumD_cons, h (k, e) (by simp), ih fun p hp => h p (List.mem_cons_of_mem _ hp)]

theorem dimSym_cons_ne (n : Sym) (d : Units) (older : Defs) (s t : Sym) (h : s ≠ n) :
    dimSym ((n, d) :: older) s t = dimSym older s t := by
  simp [dimSym, h]

theorem unfolds_dimSym (rdefs : Defs) (h : OrderedR rdefs) :
    (∀ s, lookupDef rdefs s = none → ∀ t, dimSym rdefs s t = if s = t then 1 else 0) ∧
    (∀ s d, lookupDef rdefs s = some d → ∀ t, dimSym rdefs s t = sumD (dimSym rdefs) d t) := by
  induction rdefs with
  | nil => exact ⟨fun s _ t => rfl, fun s d hd => by cases hd⟩
  | cons q older ih =>
    obtain ⟨n, d⟩ := q
    obtain ⟨h1, h2, h3⟩ := h
    obtain ⟨i1, i2⟩ := ih h3
    constructor
    · intro s hs t
      simp only [lookupDef] at hs
      split at hs
      · cases hs
      · rename_i hns
        rw [dimSym_cons_ne n d older s t (fun e => hns e.symm)]
        exact i1 s hs t
    · intro s d' hs t
      simp only [lookupDef] at hs
      split at hs
      · rename_i hns
        cases hs; subst hns
        have : dimSym ((n, d) :: older) n t = sumD (dimSym older) d t := by
          simp [dimSym, sumD]
        rw [this]
        exact sumD_congr _ _ _ _ fun p hp => (dimSym_cons_ne n d older p.1 t (h1 p hp)).symm
      · rename_i hns
        rw [dimSym_cons_ne n d older s t (fun e => hns e.symm), i2 s d' hs t]
        have hmem := mem_of_lookupDef older s d' hs
        exact sumD_congr _ _ _ _ fun p hp =>
          (dimSym_cons_ne n d older p.1 t ((h2 (s, d') hmem).2 p hp)).symm

theorem ranked_rankR (rdefs : Defs) (h : OrderedR rdefs) :
    ∀ s d, lookupDef rdefs s = some d → 1 ≤ rankR rdefs s ∧ ∀ p ∈ d, rankR rdefs p.1 < rankR rdefs s := by
  induction rdefs with
  | nil => intro s d hd; cases hd
  | cons q older ih =>
    obtain ⟨n, d⟩ := q
    obtain ⟨h1, h2, h3⟩ := h
    intro s d' hs
    simp only [lookupDef] at hs
    split at hs
    · rename_i hns
      cases hs; subst hns
      refine ⟨by simp [rankR], fun p hp => ?_⟩
      have := rankR_le older p.1
      simp only [rankR, h1 p hp, if_false, if_true]
      omega
    · rename_i hns
      have hsn : s ≠ n := fun e => hns e.symm
      obtain ⟨j1, j2⟩ := ih h3 s d' hs
      have hmem := mem_of_lookupDef older s d' hs
      refine ⟨by simpa [rankR, hsn] using j1, fun p hp => ?_⟩
      have hpn := (h2 (s, d') hmem).2 p hp
      simpa [rankR, hsn, hpn] using j2 p hp

end QExPy.U

namespace QExPy.U

theorem packRatio_spec (d : Units) (u : Units) (e0 e : Rat) (h : packRatio d u e0 = some e) :
    (e0 ≠ 0 → e = e0) ∧
    ∀ p ∈ u, expOf d p.1 ≠ 0 ∧ (p.2 / expOf d p.1 = e ∨ p.2 / expOf d p.1 = 0) := by
  induction u generalizing e0 with
  | nil =>
    simp only [packRatio, Option.some.injEq] at h
    exact ⟨fun _ => h.symm, fun p hp => by cases hp⟩
  | cons q r ih =>
    obtain ⟨name, ex⟩ := q
    simp only [packRatio] at h
    split at h
    · cases h
    · rename_i hpre
      split at h
      · cases h
      · rename_i hcond
        have hrec := ih _ h
        refine ⟨fun he0 => ?_, fun p hp => ?_⟩
        · have := hrec.1 (by simp [he0])
          simpa [he0] using this
        · rcases List.mem_cons.mp hp with hp | hp
          · subst hp
            refine ⟨hpre, ?_⟩
            by_cases he0 : e0 = 0
            · by_cases hz : ex / expOf d name = 0
              · exact Or.inr hz
              · left
                have := hrec.1 (by simp [he0, hz])
                simpa [he0] using this.symm
            · left
              have h1 : e0 = ex / expOf d name := by
                by_contra hne
                exact hcond ⟨he0, hne⟩
              have := hrec.1 (by simp [he0])
              simp only [he0, if_false] at this
              rw [this, h1]
          · exact hrec.2 p hp


/-- a unit that mentions no defined name is its own dimension -/
theorem dimU_base (rdefs : Defs) (h : OrderedR rdefs) (u : Units) (hu : WF u)
    (hb : ∀ k ∈ u.map Prod.fst, lookupDef rdefs k = none) (t : Sym) :
    dimU rdefs u t = expOf u t := by
  obtain ⟨a, _⟩ := unfolds_dimSym rdefs h
  induction u with
  | nil => rfl
  | cons p r ih =>
    obtain ⟨k, e⟩ := p
    have hr := WF_tail hu
    have hk := a k (hb k (by simp)) t
    show e * dimSym rdefs k t + dimU rdefs r t = _
    rw [hk, ih hr (fun k' hk' => hb k' (List.mem_cons_of_mem _ hk')), expOf_cons]
    by_cases hkt : k = t
    · subst hkt
      simp only [WF, List.map_cons, List.nodup_cons] at hu
      rw [expOf_eq_zero_of_not_mem r k hu.1]
      simp [Rat.mul_one, Rat.add_zero]
    · simp [hkt, Rat.mul_zero, Rat.zero_add]


end QExPy.U

namespace QExPy.U

theorem dimU_nil (u : Units) (hu : WF u) (s : Sym) : dimU [] u s = expOf u s := by
  induction u with
  | nil => rfl
  | cons p r ih =>
    obtain ⟨k, e⟩ := p
    have hr := WF_tail hu
    simp only [dimU, List.map_cons, sumRat, dimSym, expOf_cons] at *
    rw [ih hr]
    by_cases hks : k = s
    · subst hks
      simp only [WF, List.map_cons, List.nodup_cons] at hu
      rw [expOf_eq_zero_of_not_mem r k hu.1]
      simp [Rat.mul_one, Rat.add_zero]
    · simp [hks, Rat.mul_zero, Rat.zero_add]

theorem unitOf_const_flag (t : UTree) (r : Units × Bool × Nat) (h : unitOf [] t = some r) :
    r.2.1 = isConstT t := by
  cases t with
  | leaf u => simp [unitOf] at h; subst h; rfl
  | const => simp [unitOf] at h; subst h; rfl
  | powc a k =>
    simp only [unitOf] at h
    split at h
    · simp at h; subst h; rfl
    · cases h
  | un op a =>
    simp only [unitOf] at h
    split at h
    · simp only [guarded] at h
      split at h
      · split at h
        · simp at h; subst h; rfl
        · cases h
      · simp at h; subst h; rfl
    · cases h
  | bin op a b =>
    simp only [unitOf] at h
    split at h
    · simp only [guarded] at h
      split at h
      · split at h
        · simp at h; subst h; rfl
        · cases h
      · simp at h; subst h; rfl
    · cases h


end QExPy.U

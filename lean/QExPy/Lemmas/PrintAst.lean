/-
  The syntax tree of a printed unit (C13).  For both display styles the printer's string is a
  rendering of an explicit syntax tree (`expE u`, `fracE u`): we show
    * text:  replaceDot (printed string) = text of the tree's tokens,
    * lex:   the tokens are lexically unambiguous,
    * ok:    every written power has a value,
    * den:   the denotation of the tree is the exponent map `u`.
  `C12_complete` then gives the round trip.
-/
import QExPy.Lemmas.ParseSpec
import QExPy.Lemmas.PrintNum
namespace QExPy.U

/-! ### one factor -/

def facOf (p : Sym × Rat) : Fac :=
  if p.2.num = 1 ∧ p.2.den = 1 then .sym p.1 else .pw p.1 (powText p.2)

theorem facOf_text (p : Sym × Rat) : (facOf p).tok.text = p.1 ++ powerStr p.2 := by
  unfold facOf
  rw [powerStr_eq]
  split <;> simp [Fac.tok, UTok.text]

theorem facOf_flat (p : Sym × Rat) (hs : SymOK p.1) : FlatTok (facOf p).tok := by
  unfold facOf
  split
  · exact hs
  · exact ⟨hs, powOK_powText _⟩

theorem facOf_ok (p : Sym × Rat) : (facOf p).ok := by
  unfold facOf
  split
  · trivial
  · exact ⟨_, powerVal_powText _⟩

theorem facOf_den (p : Sym × Rat) (t : Sym) : (facOf p).den t = p.2 * ind p.1 t := by
  unfold facOf
  split
  · rename_i h
    rw [Fac.den, rat_eq_one p.2 h.1 h.2]
    simp
  · rw [Fac.den, powerVal_powText]
    rfl

theorem facOf_notOp (p : Sym × Rat) : (facOf p).tok.startsAl = true := by
  unfold facOf
  split <;> rfl

/-! ### a product  f₁ ⋅ f₂ ⋅ … -/

def prodFrom (x : Expr) : List (Sym × Rat) → Expr
  | [] => x
  | p :: r => prodFrom (.op x true (.single (facOf p))) r

def prodE (p : Sym × Rat) (r : List (Sym × Rat)) : Expr := prodFrom (.term (.single (facOf p))) r

def mulToks : List (Sym × Rat) → List UTok
  | [] => []
  | p :: r => .mul :: (facOf p).tok :: mulToks r

theorem prodFrom_toks (x : Expr) (r : List (Sym × Rat)) :
    (prodFrom x r).toks = x.toks ++ mulToks r := by
  induction r generalizing x with
  | nil => simp [prodFrom, mulToks]
  | cons p r ih => simp [prodFrom, ih, Expr.toks, Term.toks, mulToks, opTok]

theorem prodE_toks (p : Sym × Rat) (r : List (Sym × Rat)) :
    (prodE p r).toks = (facOf p).tok :: mulToks r := by
  simp [prodE, prodFrom_toks, Expr.toks, Term.toks]

theorem prodFrom_ok (x : Expr) (hx : x.ok) (r : List (Sym × Rat)) : (prodFrom x r).ok := by
  induction r generalizing x with
  | nil => exact hx
  | cons p r ih => exact ih _ ⟨hx, facOf_ok p⟩

theorem prodE_ok (p : Sym × Rat) (r : List (Sym × Rat)) : (prodE p r).ok :=
  prodFrom_ok _ (by simp only [Expr.ok, Term.ok]; exact facOf_ok p) r

/-- Σ e · [k = t] over the entries -/
def sumE : Units → Sym → Rat
  | [], _ => 0
  | p :: r, t => p.2 * ind p.1 t + sumE r t

theorem prodFrom_den (x : Expr) (r : List (Sym × Rat)) (t : Sym) :
    (prodFrom x r).den t = x.den t + sumE r t := by
  induction r generalizing x with
  | nil => simp [prodFrom, sumE]
  | cons p r ih =>
    simp only [prodFrom, ih, Expr.den, Term.den, facOf_den, sumE]
    simp only [if_true]
    ring

theorem prodE_den (p : Sym × Rat) (r : List (Sym × Rat)) (t : Sym) :
    (prodE p r).den t = sumE (p :: r) t := by
  simp [prodE, prodFrom_den, Expr.den, Term.den, facOf_den, sumE]

theorem sumE_eq_expOf (u : Units) (hw : WF u) (t : Sym) : sumE u t = expOf u t := by
  induction u with
  | nil => rfl
  | cons p r ih =>
    obtain ⟨k, e⟩ := p
    have hr : WF r := WF_tail hw
    simp only [sumE, expOf, ih hr, ind]
    by_cases hk : k = t
    · subst hk
      have : k ∉ r.map Prod.fst := by
        simp only [WF, List.map_cons, List.nodup_cons] at hw
        exact hw.1
      rw [expOf_eq_zero_of_not_mem r k this]
      simp
    · simp [hk]

/-! ### texts -/

theorem dot_eq : dot = ['⋅'] := by decide

theorem replaceDot_append (a b : List Char) :
    replaceDot (a ++ b) = replaceDot a ++ replaceDot b := by
  simp [replaceDot_eq]

theorem replaceDot_cons_ne (c : Char) (r : List Char) (h : c ≠ '⋅') :
    replaceDot (c :: r) = c :: replaceDot r := by
  simp [replaceDot_eq, h]

def facStr (p : Sym × Rat) : List Char := p.1 ++ powerStr p.2

theorem noDot_facStr (p : Sym × Rat) (hs : SymOK p.1) : NoDot (facStr p) := by
  rw [facStr, ← facOf_text]
  exact noDot_flatTok _ (facOf_flat p hs)

theorem joinDot_cons (x : List Char) (l : List (List Char)) :
    joinDot (x :: l) = x ++ (l.map fun y => dot ++ y).flatten := by
  induction l generalizing x with
  | nil => simp [joinDot]
  | cons y r ih => simp [joinDot, ih]

theorem textL_mulToks (r : List (Sym × Rat)) :
    textL (mulToks r) = (r.map fun p => '*' :: facStr p).flatten := by
  induction r with
  | nil => rfl
  | cons p r ih => simp [mulToks, textL, UTok.text, facOf_text, facStr, ih]

/-- the printed product, dots replaced, is the text of the product's tokens -/
theorem replaceDot_joinDot (p : Sym × Rat) (r : List (Sym × Rat))
    (hs : ∀ x ∈ p :: r, SymOK x.1) :
    replaceDot (joinDot ((p :: r).map facStr)) = textL ((prodE p r).toks) := by
  rw [prodE_toks, List.map_cons, joinDot_cons, textL, textL_mulToks, facOf_text,
    replaceDot_append, replaceDot_id _ (noDot_facStr p (hs p (by simp)))]
  congr 1
  have hr : ∀ x ∈ r, SymOK x.1 := fun x hx => hs x (by simp [hx])
  clear hs
  induction r with
  | nil => rfl
  | cons q r ih =>
    simp only [List.map_cons, List.flatten_cons, replaceDot_append, dot_eq, List.map_map]
    rw [replaceDot_id _ (noDot_facStr q (hr q (by simp)))]
    have := ih fun x hx => hr x (by simp [hx])
    simp only [List.map_map, dot_eq] at this
    rw [this]
    rfl

/-! ### lexical shape -/

theorem sep_cons_op (f o : UTok) (rest : List UTok) (ho : o.startsAl = false)
    (hos : o.isSym = false) (h : Sep rest) : Sep (f :: o :: rest) := by
  refine ⟨fun _ => ho, ?_⟩
  cases rest with
  | nil => trivial
  | cons a r => exact ⟨fun hh => (by rw [hos] at hh; cases hh), h⟩

theorem sep_prod (f : UTok) (r : List (Sym × Rat)) (tail : List UTok)
    (ht : tail = [] ∨ ∃ x, tail = [.div, x]) : Sep (f :: (mulToks r ++ tail)) := by
  induction r generalizing f with
  | nil =>
    rcases ht with rfl | ⟨x, rfl⟩
    · trivial
    · exact sep_cons_op f .div [x] rfl rfl trivial
  | cons p r ih =>
    simp only [mulToks, List.cons_append]
    exact sep_cons_op f .mul _ rfl rfl (ih _)

theorem flat_prod (p : Sym × Rat) (r : List (Sym × Rat)) (hs : ∀ x ∈ p :: r, SymOK x.1) :
    ∀ t ∈ (facOf p).tok :: mulToks r, FlatTok t := by
  induction r generalizing p with
  | nil =>
    intro t ht
    simp only [mulToks, List.mem_singleton] at ht
    subst ht
    exact facOf_flat p (hs p (by simp))
  | cons q r ih =>
    intro t ht
    simp only [mulToks, List.mem_cons] at ht
    rcases ht with rfl | rfl | ht
    · exact facOf_flat p (hs p (by simp))
    · trivial
    · exact ih q (fun x hx => hs x (by simp [List.mem_cons] at hx ⊢; tauto)) t
        (by simpa [List.mem_cons] using ht)

theorem flatSeq_prod (p : Sym × Rat) (r : List (Sym × Rat)) (hs : ∀ x ∈ p :: r, SymOK x.1) :
    FlatSeq (prodE p r).toks := by
  rw [prodE_toks]
  refine ⟨flat_prod p r hs, ?_⟩
  have := sep_prod (facOf p).tok r [] (Or.inl rfl)
  simpa using this

/-! ### exponents style -/

def expE : Units → Expr
  | [] => .term (.single .one)      -- not used: the empty unit is not printed
  | p :: r => prodE p r

theorem constructExp_eq (u : Units) : constructExp u = joinDot (u.map facStr) := by
  unfold constructExp
  congr 1

theorem expE_text (p : Sym × Rat) (r : Units) (hs : ∀ x ∈ p :: r, SymOK x.1) :
    replaceDot (constructExp (p :: r)) = textL (expE (p :: r)).toks := by
  rw [constructExp_eq]
  exact replaceDot_joinDot p r hs

theorem expE_lex (p : Sym × Rat) (r : Units) (hs : ∀ x ∈ p :: r, SymOK x.1) :
    LexUnambiguous (expE (p :: r)).toks := by
  have h := flatSeq_prod p r hs
  refine Or.inl ⟨by simp [expE, prodE_toks], fun t ht => Or.inl (h.1 t ht), h.2⟩

theorem expE_den (u : Units) (hw : WF u) (hne : u ≠ []) (t : Sym) :
    (expE u).den t = expOf u t := by
  cases u with
  | nil => exact absurd rfl hne
  | cons p r => rw [expE, prodE_den, sumE_eq_expOf _ hw]

/-! ### fraction style -/

def posPart (u : Units) : Units := u.filter fun (_, e) => e > 0
def negPart (u : Units) : Units := (u.filter fun (_, e) => e < 0).map fun (k, e) => (k, -e)

def numE (u : Units) : Expr :=
  match posPart u with
  | [] => .term (.single .one)
  | p :: r => prodE p r

def fracE (u : Units) : Expr :=
  match negPart u with
  | [] => numE u
  | [d] => .op (numE u) false (.single (facOf d))
  | d :: d2 :: r => .op (numE u) false (.single (.par (prodE d (d2 :: r))))

theorem constructFrac_eq (u : Units) : constructFrac u =
    (let num := (posPart u).map facStr
     let den := (negPart u).map facStr
     let numS := if num.isEmpty then ['1'] else joinDot num
     if den.isEmpty then (if num.isEmpty then [] else numS)
     else if den.length > 1 then numS ++ '/' :: '(' :: (joinDot den ++ [')'])
     else numS ++ '/' :: joinDot den) := by
  unfold constructFrac posPart negPart
  simp only [List.map_map]
  rfl

theorem symOK_posPart (u : Units) (hs : ∀ x ∈ u, SymOK x.1) : ∀ x ∈ posPart u, SymOK x.1 :=
  fun x hx => hs x (List.mem_filter.mp hx).1

theorem symOK_negPart (u : Units) (hs : ∀ x ∈ u, SymOK x.1) : ∀ x ∈ negPart u, SymOK x.1 := by
  intro x hx
  simp only [negPart, List.mem_map] at hx
  obtain ⟨y, hy, rfl⟩ := hx
  exact hs y (List.mem_filter.mp hy).1

/-- text of the numerator -/
theorem numE_text (u : Units) (hs : ∀ x ∈ u, SymOK x.1) :
    replaceDot (if ((posPart u).map facStr).isEmpty then ['1'] else joinDot ((posPart u).map facStr)) =
      textL (numE u).toks := by
  unfold numE
  cases hp : posPart u with
  | nil => simp [replaceDot_eq, Expr.toks, Term.toks, Fac.tok, textL, UTok.text]
  | cons p r =>
    have := replaceDot_joinDot p r (hp ▸ symOK_posPart u hs)
    simpa using this

theorem fracE_text (u : Units) (hs : ∀ x ∈ u, SymOK x.1) (hne : posPart u ≠ [] ∨ negPart u ≠ []) :
    replaceDot (constructFrac u) = textL (fracE u).toks := by
  rw [constructFrac_eq]
  have hnum := numE_text u hs
  unfold fracE
  cases hn : negPart u with
  | nil =>
    have hp : posPart u ≠ [] := by
      rcases hne with h | h
      · exact h
      · exact absurd hn h
    cases hpp : posPart u with
    | nil => exact absurd hpp hp
    | cons p r =>
      rw [hpp] at hnum
      simpa using hnum
  | cons d rest =>
    have hsn := symOK_negPart u hs
    rw [hn] at hsn
    cases rest with
    | nil =>
      simp only [List.map_cons, List.map_nil, List.isEmpty_cons, List.length_singleton,
        Nat.lt_irrefl, if_false, joinDot, Bool.false_eq_true, gt_iff_lt]
      rw [replaceDot_append, hnum, replaceDot_cons_ne _ _ (by decide),
        replaceDot_id _ (noDot_facStr d (hsn d (by simp)))]
      simp [Expr.toks, Term.toks, textL_append, textL, opTok, UTok.text, facOf_text, facStr]
    | cons d2 r =>
      have hj := replaceDot_joinDot d (d2 :: r) hsn
      simp only [List.map_cons] at hj
      simp only [List.map_cons, List.isEmpty_cons, List.length_cons, Bool.false_eq_true, if_false,
        gt_iff_lt]
      rw [if_pos (by omega), replaceDot_append, hnum, replaceDot_cons_ne _ _ (by decide),
        replaceDot_cons_ne _ _ (by decide), replaceDot_append, hj,
        replaceDot_cons_ne _ _ (by decide)]
      simp [Expr.toks, Term.toks, Fac.tok, textL_append, textL, opTok, UTok.text, replaceDot_eq]

theorem numE_ok (u : Units) : (numE u).ok := by
  unfold numE
  split
  · trivial
  · exact prodE_ok _ _

theorem fracE_ok (u : Units) : (fracE u).ok := by
  unfold fracE
  split
  · exact numE_ok u
  · exact ⟨numE_ok u, facOf_ok _⟩
  · exact ⟨numE_ok u, prodE_ok _ _⟩

theorem numE_den (u : Units) (t : Sym) : (numE u).den t = sumE (posPart u) t := by
  unfold numE
  split
  · rename_i h; rw [h]; rfl
  · rename_i p r h; rw [h, prodE_den]

theorem fracE_den_sum (u : Units) (t : Sym) :
    (fracE u).den t = sumE (posPart u) t - sumE (negPart u) t := by
  unfold fracE
  split
  · rename_i h; rw [h, numE_den]; simp [sumE]
  · rename_i d h
    rw [h]
    simp only [Expr.den, Term.den, facOf_den, numE_den, sumE]
    simp only [Bool.false_eq_true, if_false]
    ring
  · rename_i d d2 r h
    rw [h]
    simp only [Expr.den, Term.den, Fac.den, prodE_den, numE_den]
    simp only [Bool.false_eq_true, if_false]
    ring

theorem sumE_split (u : Units) (hz : ∀ p ∈ u, p.2 ≠ 0) (t : Sym) :
    sumE (posPart u) t - sumE (negPart u) t = sumE u t := by
  induction u with
  | nil => simp [posPart, negPart, sumE]
  | cons p r ih =>
    obtain ⟨k, e⟩ := p
    have h0 : e ≠ 0 := hz (k, e) (by simp)
    have ih' := ih fun q hq => hz q (by simp [hq])
    simp only [posPart, negPart] at ih' ⊢
    rcases lt_trichotomy e 0 with hlt | heq | hgt
    · have h1 : ¬ (e > 0) := not_lt.mpr (le_of_lt hlt)
      simp only [List.filter_cons, h1, hlt, decide_true, decide_false, if_true, List.map_cons, sumE,
        Bool.false_eq_true, if_false]
      linarith
    · exact absurd heq h0
    · have h1 : ¬ (e < 0) := not_lt.mpr (le_of_lt hgt)
      simp only [List.filter_cons, h1, hgt, decide_true, decide_false, if_true, sumE,
        Bool.false_eq_true, if_false]
      linarith

theorem fracE_den (u : Units) (hw : WF u) (hz : ∀ p ∈ u, p.2 ≠ 0) (t : Sym) :
    (fracE u).den t = expOf u t := by
  rw [fracE_den_sum, sumE_split u hz, sumE_eq_expOf u hw]

theorem pos_or_neg (u : Units) (hne : u ≠ []) (hz : ∀ p ∈ u, p.2 ≠ 0) :
    posPart u ≠ [] ∨ negPart u ≠ [] := by
  cases u with
  | nil => exact absurd rfl hne
  | cons p r =>
    obtain ⟨k, e⟩ := p
    have h0 : e ≠ 0 := hz (k, e) (by simp)
    rcases lt_trichotomy e 0 with hlt | heq | hgt
    · right; simp [negPart, hlt]
    · exact absurd heq h0
    · left; simp [posPart, hgt]

theorem numE_shape (u : Units) (hs : ∀ x ∈ u, SymOK x.1) :
    ((numE u).toks = [.one]) ∨
    ∃ p r, (numE u).toks = (facOf p).tok :: mulToks r ∧ ∀ x ∈ p :: r, SymOK x.1 := by
  unfold numE
  cases hp : posPart u with
  | nil => left; rfl
  | cons p r => right; exact ⟨p, r, prodE_toks p r, hp ▸ symOK_posPart u hs⟩

theorem topTok_of_flat {ts : List UTok} (h : ∀ t ∈ ts, FlatTok t) : ∀ t ∈ ts, TopTok t :=
  fun t ht => Or.inl (h t ht)

theorem fracE_lex (u : Units) (hs : ∀ x ∈ u, SymOK x.1) (hne : posPart u ≠ [] ∨ negPart u ≠ []) :
    LexUnambiguous (fracE u).toks := by
  have hsn := symOK_negPart u hs
  unfold fracE
  cases hn : negPart u with
  | nil =>
    have hp : posPart u ≠ [] := by
      rcases hne with h | h
      · exact h
      · exact absurd hn h
    simp only
    unfold numE
    cases hpp : posPart u with
    | nil => exact absurd hpp hp
    | cons p r =>
      have h := flatSeq_prod p r (hpp ▸ symOK_posPart u hs)
      exact Or.inl ⟨by simp [prodE_toks], topTok_of_flat h.1, h.2⟩
  | cons d rest =>
    rw [hn] at hsn
    -- the denominator token
    have hden : ∃ x : UTok, TopTok x ∧ (fracE u).toks = (numE u).toks ++ [.div, x] ∧
        (match rest with
          | [] => Expr.op (numE u) false (.single (facOf d))
          | d2 :: r => Expr.op (numE u) false (.single (.par (prodE d (d2 :: r))))).toks =
          (numE u).toks ++ [.div, x] := by
      cases rest with
      | nil =>
        refine ⟨(facOf d).tok, Or.inl (facOf_flat d (hsn d (by simp))), ?_, ?_⟩
        · simp [fracE, hn, Expr.toks, Term.toks, opTok]
        · simp [Expr.toks, Term.toks, opTok]
      | cons d2 r =>
        have hb := flatSeq_prod d (d2 :: r) hsn
        refine ⟨.par (prodE d (d2 :: r)).toks,
          Or.inr ⟨_, rfl, Or.inl ⟨by simp [prodE_toks], hb⟩⟩, ?_, ?_⟩
        · simp [fracE, hn, Expr.toks, Term.toks, Fac.tok, opTok]
        · simp [Expr.toks, Term.toks, Fac.tok, opTok]
    obtain ⟨x, hx, _, htoks⟩ := hden
    have goal : LexUnambiguous ((numE u).toks ++ [.div, x]) := by
      rcases numE_shape u hs with h1 | ⟨p, r, h1, hsp⟩
      · rw [h1]
        refine Or.inr ⟨[x], rfl, ?_, trivial⟩
        intro t ht
        simp only [List.mem_singleton] at ht
        subst ht
        exact hx
      · rw [h1]
        refine Or.inl ⟨by simp, ?_, ?_⟩
        · intro t ht
          simp only [List.cons_append, List.mem_cons, List.mem_append, List.not_mem_nil,
            or_false] at ht
          rcases ht with rfl | ht | rfl | rfl
          · exact Or.inl (flat_prod p r hsp _ (by simp))
          · exact Or.inl (flat_prod p r hsp _ (by simp [ht]))
          · exact Or.inl trivial
          · exact hx
        · exact sep_prod _ r _ (Or.inr ⟨x, rfl⟩)
    cases rest with
    | nil => simpa using htoks ▸ goal
    | cons d2 r => simpa using htoks ▸ goal

end QExPy.U

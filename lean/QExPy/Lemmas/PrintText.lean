/-
  Helper lemmas for the round trip `parsePrinted (render p) = p` (C09).
-/
import QExPy.Model.PrintText
import Mathlib.Tactic.Ring
import Mathlib.Tactic.Linarith

namespace QExPy.Printing

/-! ### digit characters -/

theorem digit_cases (d : Nat) (h : d < 10) :
    d = 0 ∨ d = 1 ∨ d = 2 ∨ d = 3 ∨ d = 4 ∨ d = 5 ∨ d = 6 ∨ d = 7 ∨ d = 8 ∨ d = 9 := by omega

theorem digitChar_isDig (d : Nat) (h : d < 10) : isDig (digitChar d) = true := by
  rcases digit_cases d h with rfl | rfl | rfl | rfl | rfl | rfl | rfl | rfl | rfl | rfl <;> decide

theorem digitChar_val (d : Nat) (h : d < 10) : charVal (digitChar d) = d := by
  rcases digit_cases d h with rfl | rfl | rfl | rfl | rfl | rfl | rfl | rfl | rfl | rfl <;> decide

theorem digitChar_isNum (d : Nat) (h : d < 10) : isNumChar (digitChar d) = true := by
  simp [isNumChar, digitChar_isDig d h]

theorem digitChar_ne_minus (d : Nat) (h : d < 10) : digitChar d ≠ '-' := by
  rcases digit_cases d h with rfl | rfl | rfl | rfl | rfl | rfl | rfl | rfl | rfl | rfl <;> decide

theorem digitChar_ne_paren (d : Nat) (h : d < 10) : digitChar d ≠ '(' := by
  rcases digit_cases d h with rfl | rfl | rfl | rfl | rfl | rfl | rfl | rfl | rfl | rfl <;> decide

/-! ### digit lists -/

theorem ofDigits_snoc (a : List Nat) (d : Nat) : ofDigits (a ++ [d]) = 10 * ofDigits a + d := by
  simp [ofDigits, List.foldl_append]

theorem foldl_digits (b : List Nat) (acc : Nat) :
    b.foldl (fun a d => 10 * a + d) acc = acc * 10 ^ b.length + b.foldl (fun a d => 10 * a + d) 0 := by
  induction b generalizing acc with
  | nil => simp
  | cons d r ih =>
    simp only [List.foldl_cons, List.length_cons]
    rw [ih (10 * acc + d), ih (10 * 0 + d)]
    ring

theorem ofDigits_append (a b : List Nat) :
    ofDigits (a ++ b) = ofDigits a * 10 ^ b.length + ofDigits b := by
  simp only [ofDigits, List.foldl_append]
  exact foldl_digits b _

theorem natDigits_spec (n : Nat) :
    ofDigits (natDigits n) = n ∧ (∀ d ∈ natDigits n, d < 10) ∧ natDigits n ≠ [] := by
  induction n using Nat.strong_induction_on with
  | _ n ih =>
    rw [natDigits]
    split
    · rename_i h; simp [ofDigits]; exact h
    · rename_i h
      obtain ⟨h1, h2, h3⟩ := ih (n / 10) (by omega)
      refine ⟨?_, ?_, by simp⟩
      · rw [ofDigits_snoc, h1]; omega
      · intro d hd
        rcases List.mem_append.mp hd with hd | hd
        · exact h2 d hd
        · simp at hd; omega

theorem lastDigits_spec (d n : Nat) :
    ofDigits (lastDigits n d) = n % 10 ^ d ∧ (lastDigits n d).length = d ∧
      ∀ x ∈ lastDigits n d, x < 10 := by
  induction d generalizing n with
  | zero => simp [lastDigits, ofDigits, Nat.mod_one]
  | succ d ih =>
    obtain ⟨h1, h2, h3⟩ := ih (n / 10)
    simp only [lastDigits]
    refine ⟨?_, by simp [h2], ?_⟩
    · rw [ofDigits_snoc, h1, Nat.pow_succ, Nat.mul_comm (10 ^ d) 10, Nat.mod_mul]; omega
    · intro x hx
      rcases List.mem_append.mp hx with hx | hx
      · exact h3 x hx
      · simp at hx; omega

theorem digits_join (a d : Nat) : ofDigits (natDigits (a / 10 ^ d) ++ lastDigits a d) = a := by
  rw [ofDigits_append, (natDigits_spec _).1, (lastDigits_spec d a).1, (lastDigits_spec d a).2.1]
  exact Nat.div_add_mod' a (10 ^ d)

theorem map_val_digitChar (l : List Nat) (h : ∀ d ∈ l, d < 10) :
    (l.map digitChar).map charVal = l := by
  induction l with
  | nil => rfl
  | cons x r ih =>
    simp only [List.map_cons]
    rw [digitChar_val x (h x (by simp)), ih (fun d hd => h d (by simp [hd]))]

theorem all_isDig_map (l : List Nat) (h : ∀ d ∈ l, d < 10) :
    ∀ c ∈ l.map digitChar, isDig c = true := by
  intro c hc
  obtain ⟨d, hd, rfl⟩ := List.mem_map.mp hc
  exact digitChar_isDig d (h d hd)

/-! ### span -/

theorem spanL_append (p : Char → Bool) (l r : List Char) (hl : ∀ c ∈ l, p c = true)
    (hr : r = [] ∨ ∃ c t, r = c :: t ∧ p c = false) : spanL p (l ++ r) = (l, r) := by
  induction l with
  | nil =>
    rcases hr with rfl | ⟨c, t, rfl, hc⟩
    · rfl
    · simp [spanL, hc]
  | cons x xs ih =>
    have hx : p x = true := hl x (by simp)
    simp only [List.cons_append, spanL, hx, if_true]
    rw [ih (fun c hc => hl c (by simp [hc]))]

/-! ### one number -/

theorem signed_natAbs (m : Int) : signed (decide (m < 0)) m.natAbs = m := by
  unfold signed
  by_cases h : m < 0
  · rw [decide_eq_true h]; simp only [if_true]; omega
  · rw [decide_eq_false h]; simp only [Bool.false_eq_true, if_false]; omega

theorem stripSign_digit (d : Nat) (h : d < 10) (r : List Char) :
    stripSign (digitChar d :: r) = (false, digitChar d :: r) := by
  have := digitChar_ne_minus d h
  unfold stripSign
  split
  · rename_i heq; simp at heq; exact absurd heq.1 this
  · rfl

/-- the body of a printed number (after the sign) -/
def bodyChars (a d : Nat) : List Char :=
  (natDigits (a / 10 ^ d)).map digitChar ++
    (if d = 0 then [] else '.' :: (lastDigits a d).map digitChar)

theorem numChars_eq (m : Int) (d : Nat) :
    numChars m d = (if m < 0 then ['-'] else []) ++ bodyChars m.natAbs d := by
  simp [numChars, bodyChars]

theorem bodyChars_head (a d : Nat) : ∃ x t, x < 10 ∧ bodyChars a d = digitChar x :: t := by
  obtain ⟨-, h2, h3⟩ := natDigits_spec (a / 10 ^ d)
  unfold bodyChars
  cases hl : natDigits (a / 10 ^ d) with
  | nil => exact absurd hl h3
  | cons x t =>
    exact ⟨x, t.map digitChar ++ (if d = 0 then [] else '.' :: (lastDigits a d).map digitChar),
      h2 x (by simp [hl]), by simp⟩

theorem parse_body (neg : Bool) (a d : Nat) :
    parseBody neg (bodyChars a d) = some (signed neg a, d) := by
  unfold parseBody
  obtain ⟨h1, h2, h3⟩ := natDigits_spec (a / 10 ^ d)
  obtain ⟨l1, l2, l3⟩ := lastDigits_spec d a
  have hip := all_isDig_map _ h2
  have hne : (natDigits (a / 10 ^ d)).map digitChar ≠ [] := by simpa using h3
  unfold bodyChars
  by_cases hd : d = 0
  · subst hd
    simp only [if_true]
    rw [spanL_append isDig _ [] hip (Or.inl rfl)]
    simp only [hne, if_false, map_val_digitChar _ h2, h1]
    simp
  · simp only [hd, if_false]
    rw [spanL_append isDig _ _ hip (Or.inr ⟨'.', _, rfl, by decide⟩)]
    simp only [hne, if_false]
    have hfr : (lastDigits a d).map digitChar ≠ [] := by
      intro h; have := congrArg List.length h; simp [l2] at this; exact hd this
    have hall : ((lastDigits a d).map digitChar).all isDig = true := by
      rw [List.all_eq_true]; exact all_isDig_map _ l3
    simp only [hfr, hall, ne_eq, not_false_eq_true, and_self, if_true]
    rw [← List.map_append, map_val_digitChar _ (by
      intro x hx; rcases List.mem_append.mp hx with hx | hx
      · exact h2 x hx
      · exact l3 x hx), digits_join]
    simp [l2]

theorem parseNum_numChars (m : Int) (d : Nat) : parseNum (numChars m d) = some (m, d) := by
  rw [numChars_eq]
  unfold parseNum
  have hsgn := signed_natAbs m
  by_cases h : m < 0
  · simp only [h, if_true, List.singleton_append, stripSign]
    rw [parse_body true m.natAbs d]
    rw [decide_eq_true h] at hsgn
    rw [hsgn]
  · obtain ⟨x, t, hx, hb⟩ := bodyChars_head m.natAbs d
    simp only [h, if_false, List.nil_append]
    have hs : stripSign (bodyChars m.natAbs d) = (false, bodyChars m.natAbs d) := by
      rw [hb]; exact stripSign_digit x hx t
    rw [hs, parse_body false m.natAbs d]
    rw [decide_eq_false h] at hsgn
    rw [hsgn]

theorem numChars_all (m : Int) (d : Nat) : ∀ c ∈ numChars m d, isNumChar c = true := by
  obtain ⟨-, h2, -⟩ := natDigits_spec (m.natAbs / 10 ^ d)
  obtain ⟨-, -, l3⟩ := lastDigits_spec d m.natAbs
  intro c hc
  unfold numChars at hc
  simp only [List.mem_append] at hc
  rcases hc with (hc | hc) | hc
  · split at hc
    · simp at hc; subst hc; decide
    · simp at hc
  · obtain ⟨x, hx, rfl⟩ := List.mem_map.mp hc
    exact digitChar_isNum x (h2 x hx)
  · split at hc
    · simp at hc
    · rcases List.mem_cons.mp hc with rfl | hc
      · decide
      · obtain ⟨x, hx, rfl⟩ := List.mem_map.mp hc
        exact digitChar_isNum x (l3 x hx)

theorem numChars_head (m : Int) (d : Nat) : ∃ c t, numChars m d = c :: t ∧ c ≠ '(' := by
  rw [numChars_eq]
  by_cases h : m < 0
  · exact ⟨'-', bodyChars m.natAbs d, by simp [h], by decide⟩
  · obtain ⟨x, t, hx, hb⟩ := bodyChars_head m.natAbs d
    exact ⟨digitChar x, t, by simp [h, hb], digitChar_ne_paren x hx⟩

/-! ### the whole text -/

theorem stripPm_pm (latex : Bool) (r : List Char) :
    stripPm (' ' :: (pmChars latex ++ ' ' :: r)) = some (latex, r) := by
  cases latex <;> rfl

theorem parseCore_render (v : Int) (dv : Nat) (latex : Bool) (e : Int) (de : Nat) (R : List Char)
    (hR : R = [] ∨ ∃ c t, R = c :: t ∧ isNumChar c = false) :
    parseCore (numChars v dv ++ ' ' :: (pmChars latex ++ ' ' :: (numChars e de ++ R)))
      = some ((v, dv), latex, (e, de), R) := by
  unfold parseCore
  rw [spanL_append isNumChar _ _ (numChars_all v dv) (Or.inr ⟨' ', _, rfl, by decide⟩)]
  simp only [parseNum_numChars, stripPm_pm]
  rw [spanL_append isNumChar _ _ (numChars_all e de) hR]
  simp only [parseNum_numChars]

theorem numChars_zero : numChars 0 0 = ['0'] := by
  unfold numChars
  rw [natDigits]
  simp [digitChar]

theorem stripTail_tail (r : List Char) : stripTail (tailChars ++ r) = some r := rfl

theorem tail_head (r : List Char) :
    ∃ c t, tailChars ++ r = c :: t ∧ isNumChar c = false := ⟨')', _, rfl, by decide⟩

/-- well-formed structured outputs: a bare `0` uncertainty stands for mantissa 0 with no decimals,
    and the non-scientific form carries the power 0 -/
def WFPrinted (p : Printed) : Prop :=
  (p.errBare = true → p.mantE = 0 ∧ p.decE = 0) ∧ (p.sci = false → p.pow10 = 0)

theorem parseChars_render (p : Printed) (h : WFPrinted p) :
    parseChars (renderChars p) =
      some { p with errBare := decide (p.mantE = 0 ∧ p.decE = 0) } := by
  obtain ⟨h1, h2⟩ := h
  have hes : (if p.errBare then ['0'] else numChars p.mantE p.decE) = numChars p.mantE p.decE := by
    by_cases hb : p.errBare = true
    · obtain ⟨a, b⟩ := h1 hb
      rw [if_pos hb, a, b, numChars_zero]
    · rw [if_neg hb]
  unfold renderChars
  simp only [hes]
  by_cases hs : p.sci = true
  · simp only [hs, if_true]
    unfold parseChars
    simp only [List.append_assoc, List.cons_append]
    rw [parseCore_render _ _ _ _ _ _ (Or.inr (tail_head _))]
    simp only [stripTail_tail, intChars, parseNum_numChars]
    cases p
    simp_all [mkPrinted]
  · have hs' : p.sci = false := by simpa using hs
    simp only [hs', Bool.false_eq_true, if_false]
    obtain ⟨c, t, hc, hne⟩ := numChars_head p.mantV p.decV
    have hcore := parseCore_render p.mantV p.decV p.latex p.mantE p.decE [] (Or.inl rfl)
    rw [List.append_nil] at hcore
    unfold parseChars
    rw [hc] at hcore ⊢
    simp only [List.cons_append] at hcore ⊢
    split
    · rename_i r heq; simp at heq; exact absurd heq.1 hne
    · rw [hcore]
      have hp := h2 hs'
      cases p
      simp_all [mkPrinted]


end QExPy.Printing

/- helper lemmas about the session state machine (QExPy/Model/World.lean) -/
import QExPy.Model.World
set_option linter.unusedSectionVars false

namespace QExPy
namespace World
variable {α : Type} [Num α]

theorem nodes_modifyNode (w : World α) (n : Nat) (f : Node α → Node α) (m : Nat) :
    (w.modifyNode n f).nodes[m]? = if n = m then (w.nodes[m]?).map f else w.nodes[m]? := by
  simp only [modifyNode, List.getElem?_modify]
  split <;> simp

theorem ensureSim_nodes (w : World α) (m n : Nat) :
    (w.ensureSim m).1.nodes[n]? =
      if m = n then (w.nodes[n]?).map (fun nd => match nd.sim with
        | some _ => nd
        | none => { nd with sim := some w.nextSim }) else w.nodes[n]? := by
  unfold ensureSim
  split
  · rename_i nd hm
    split
    · rename_i s hs
      by_cases h : m = n
      · subst h; simp [hm, hs]
      · simp [h]
    · rename_i hs
      simp only [List.getElem?_modify]
      by_cases h : m = n
      · subst h; simp [hm, hs]
      · simp [h]
  · rename_i hm
    by_cases h : m = n
    · subst h; simp [hm]
    · simp [h]

theorem ensureSim_global (w : World α) (m : Nat) :
    (w.ensureSim m).1.globalMethod = w.globalMethod := by
  unfold ensureSim
  split
  · split <;> rfl
  · rfl

theorem ensureSim_vals (w : World α) (m : Nat) : (w.ensureSim m).1.vals = w.vals := by
  unfold ensureSim; split
  · split <;> rfl
  · rfl
theorem ensureSim_errs (w : World α) (m : Nat) : (w.ensureSim m).1.errs = w.errs := by
  unfold ensureSim; split
  · split <;> rfl
  · rfl
theorem ensureSim_corr (w : World α) (m : Nat) : (w.ensureSim m).1.corr = w.corr := by
  unfold ensureSim; split
  · split <;> rfl
  · rfl

/-- the fields of node `n` after one step, as a function of the operation -/
def nodeAt (w : World α) (n : Nat) : Option (Node α) := w.nodes[n]?

theorem effMethod_eq (w : World α) (n : Nat) :
    w.effMethod n = match w.nodeAt n with
      | some nd => nd.method.getD w.globalMethod
      | none => w.globalMethod := rfl

end World
end QExPy

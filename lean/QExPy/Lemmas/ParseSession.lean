/-
  Helpers for the session theorems of C12 (`C12_session_*`): the replies of a history that is
  extended by one request, and the bound a filled slot implies.
-/
import QExPy.Model.ParseSession
namespace QExPy
open U

theorem runS_snoc (hs : Handles) (rs : List PReq) (r : PReq) :
    runS hs (rs ++ [r]) = runS hs rs ++ [(stepS (stateS hs rs) r).2] := by
  induction rs generalizing hs with
  | nil => simp [runS, stateS]
  | cons a rs ih => simp [runS, stateS, ih, List.foldl_cons]

theorem slot_lt {hs : Handles} {h : Nat} {u : Units} (hu : slot hs h = some u) :
    h < hs.length := by
  unfold slot at hu
  rcases Nat.lt_or_ge h hs.length with hl | hl
  · exact hl
  · have : hs[h]? = none := List.getElem?_eq_none hl
    simp [this] at hu

end QExPy

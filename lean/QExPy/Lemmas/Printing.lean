/-
  Helper lemmas for C09: powers of ten, exact ⌊log₁₀⌋, half-even rounding, fixed-point formatting.
-/
import QExPy.Model.Printing
import Mathlib.Data.Rat.Floor
import Mathlib.Algebra.Order.Field.Power
import Mathlib.Tactic.Linarith
import Mathlib.Tactic.NormNum
import Mathlib.Tactic.Positivity
import Mathlib.Tactic.Ring
import Mathlib.Tactic.FieldSimp

namespace QExPy.Printing

/-! ### powers of ten -/

theorem p10_def (k : ℤ) : p10 k = (10 : ℚ) ^ k := rfl

theorem p10_pos (k : ℤ) : 0 < p10 k := by rw [p10_def]; positivity

theorem p10_ne (k : ℤ) : p10 k ≠ 0 := (p10_pos k).ne'

theorem p10_zero : p10 0 = 1 := by simp [p10_def]

theorem p10_add (a b : ℤ) : p10 (a + b) = p10 a * p10 b := by
  simp only [p10_def]; exact zpow_add₀ (by norm_num) a b

theorem p10_sub (a b : ℤ) : p10 (a - b) = p10 a / p10 b := by
  simp only [p10_def]; exact zpow_sub₀ (by norm_num) a b

theorem p10_succ (a : ℤ) : p10 (a + 1) = p10 a * 10 := by
  rw [p10_add]; simp [p10_def]

theorem p10_nat (n : ℕ) : p10 (n : ℤ) = (10 : ℚ) ^ n := by simp [p10_def]

theorem p10_le_iff (a b : ℤ) : p10 a ≤ p10 b ↔ a ≤ b := by
  simp only [p10_def]; exact zpow_le_zpow_iff_right₀ (by norm_num)

theorem p10_lt_iff (a b : ℤ) : p10 a < p10 b ↔ a < b := by
  simp only [p10_def]; exact zpow_lt_zpow_iff_right₀ (by norm_num)

theorem qabs_eq_abs (q : ℚ) : qabs q = |q| := by
  unfold qabs
  split
  · rename_i h; rw [abs_of_neg h]
  · rename_i h; rw [abs_of_nonneg (not_lt.mp h)]

/-! ### ⌊log₁₀⌋ on naturals and rationals -/

theorem natLog10_spec (n : ℕ) (h : 1 ≤ n) : 10 ^ natLog10 n ≤ n ∧ n < 10 ^ (natLog10 n + 1) := by
  induction n using Nat.strong_induction_on with
  | _ n ih =>
    rw [natLog10]
    split
    · rename_i h10; simp; omega
    · rename_i h10
      have hdiv : 1 ≤ n / 10 := by omega
      have := ih (n / 10) (by omega) hdiv
      obtain ⟨h1, h2⟩ := this
      constructor
      · calc 10 ^ (natLog10 (n / 10) + 1) = 10 ^ natLog10 (n / 10) * 10 := by ring
          _ ≤ (n / 10) * 10 := Nat.mul_le_mul_right 10 h1
          _ ≤ n := Nat.div_mul_le_self n 10
      · have : n < (n / 10 + 1) * 10 := by omega
        calc n < (n / 10 + 1) * 10 := this
          _ ≤ 10 ^ (natLog10 (n / 10) + 1) * 10 := Nat.mul_le_mul_right 10 h2
          _ = 10 ^ (natLog10 (n / 10) + 1 + 1) := by ring

theorem abs_eq_div (q : ℚ) : |q| = (q.num.natAbs : ℚ) / (q.den : ℚ) := by
  conv_lhs => rw [← Rat.num_div_den q]
  rw [abs_div, Nat.abs_cast, Nat.cast_natAbs, Int.cast_abs]

/-- the two-sided estimate behind `ilog10`: with `d = ⌊log a⌋ − ⌊log b⌋`, `10^(d−1) < a/b < 10^(d+1)` -/
theorem ilog10_bracket (q : ℚ) (hq : q ≠ 0) :
    let d : ℤ := (natLog10 q.num.natAbs : ℤ) - (natLog10 q.den : ℤ)
    p10 (d - 1) < |q| ∧ |q| < p10 (d + 1) := by
  intro d
  have ha : 1 ≤ q.num.natAbs := by
    have := Rat.num_ne_zero.mpr hq
    omega
  have hb : 1 ≤ q.den := q.den_pos
  obtain ⟨a1, a2⟩ := natLog10_spec _ ha
  obtain ⟨b1, b2⟩ := natLog10_spec _ hb
  have a1' : (10 : ℚ) ^ natLog10 q.num.natAbs ≤ (q.num.natAbs : ℚ) := by exact_mod_cast a1
  have a2' : (q.num.natAbs : ℚ) < (10 : ℚ) ^ (natLog10 q.num.natAbs + 1) := by exact_mod_cast a2
  have b1' : (10 : ℚ) ^ natLog10 q.den ≤ (q.den : ℚ) := by exact_mod_cast b1
  have b2' : (q.den : ℚ) < (10 : ℚ) ^ (natLog10 q.den + 1) := by exact_mod_cast b2
  have hbpos : (0 : ℚ) < (q.den : ℚ) := by exact_mod_cast hb
  rw [abs_eq_div]
  have e1 : p10 (d - 1) = (10 : ℚ) ^ natLog10 q.num.natAbs / (10 : ℚ) ^ (natLog10 q.den + 1) := by
    have : d - 1 = ((natLog10 q.num.natAbs : ℕ) : ℤ) - ((natLog10 q.den + 1 : ℕ) : ℤ) := by
      simp only [d]; push_cast; ring
    rw [this, p10_sub, p10_nat, p10_nat]
  have e2 : p10 (d + 1) = (10 : ℚ) ^ (natLog10 q.num.natAbs + 1) / (10 : ℚ) ^ natLog10 q.den := by
    have : d + 1 = ((natLog10 q.num.natAbs + 1 : ℕ) : ℤ) - ((natLog10 q.den : ℕ) : ℤ) := by
      simp only [d]; push_cast; ring
    rw [this, p10_sub, p10_nat, p10_nat]
  constructor
  · rw [e1, div_lt_div_iff₀ (by positivity) hbpos]
    calc (10 : ℚ) ^ natLog10 q.num.natAbs * (q.den : ℚ)
        < (10 : ℚ) ^ natLog10 q.num.natAbs * (10 : ℚ) ^ (natLog10 q.den + 1) := by
          apply mul_lt_mul_of_pos_left b2' (by positivity)
      _ ≤ (q.num.natAbs : ℚ) * (10 : ℚ) ^ (natLog10 q.den + 1) := by
          apply mul_le_mul_of_nonneg_right a1' (by positivity)
  · rw [e2, div_lt_div_iff₀ hbpos (by positivity)]
    calc (q.num.natAbs : ℚ) * (10 : ℚ) ^ natLog10 q.den
        < (10 : ℚ) ^ (natLog10 q.num.natAbs + 1) * (10 : ℚ) ^ natLog10 q.den := by
          apply mul_lt_mul_of_pos_right a2' (by positivity)
      _ ≤ (10 : ℚ) ^ (natLog10 q.num.natAbs + 1) * (q.den : ℚ) := by
          apply mul_le_mul_of_nonneg_left b1' (by positivity)

/-- `ilog10 q` is the decimal order of magnitude: `10^k ≤ |q| < 10^(k+1)` -/
theorem ilog10_spec (q : ℚ) (hq : q ≠ 0) : p10 (ilog10 q) ≤ |q| ∧ |q| < p10 (ilog10 q + 1) := by
  obtain ⟨h1, h2⟩ := ilog10_bracket q hq
  simp only [ilog10, hq, if_false, qabs_eq_abs]
  split
  · rename_i h; exact ⟨h, h2⟩
  · rename_i h
    refine ⟨le_of_lt h1, ?_⟩
    rw [sub_add_cancel]; exact not_le.mp h

/-- the order of magnitude is unique -/
theorem ilog10_unique (q : ℚ) (k : ℤ) (h1 : p10 k ≤ |q|) (h2 : |q| < p10 (k + 1)) :
    ilog10 q = k := by
  have hq : q ≠ 0 := by
    intro h; rw [h, abs_zero] at h1; exact absurd (p10_pos k) (not_lt.mpr h1)
  obtain ⟨s1, s2⟩ := ilog10_spec q hq
  have := (p10_lt_iff _ _).mp (lt_of_le_of_lt h1 s2)
  have := (p10_lt_iff _ _).mp (lt_of_le_of_lt s1 h2)
  omega


/-! ### half-even rounding -/

theorem rat_floor_eq (q : ℚ) : q.floor = ⌊q⌋ := rfl

/-- Python's `round` moves a number by at most one half -/
theorem roundHE_bound (q : ℚ) : |(roundHE q : ℚ) - q| ≤ 1 / 2 := by
  have h1 : (q.floor : ℚ) ≤ q := Int.floor_le q
  have h2 : q < (q.floor : ℚ) + 1 := Int.lt_floor_add_one q
  unfold roundHE
  generalize q.floor = f at *
  by_cases c1 : q - (f : ℚ) < 1 / 2
  · simp only [if_pos c1]; rw [abs_le]; constructor <;> linarith
  · simp only [if_neg c1]
    by_cases c2 : 1 / 2 < q - (f : ℚ)
    · simp only [if_pos c2]; push_cast; rw [abs_le]; constructor <;> linarith
    · simp only [if_neg c2]
      have c3 : q - (f : ℚ) = 1 / 2 := le_antisymm (not_lt.mp c2) (not_lt.mp c1)
      by_cases c4 : f % 2 = 0
      · simp only [if_pos c4]; rw [abs_le]; constructor <;> linarith
      · simp only [if_neg c4]; push_cast; rw [abs_le]; constructor <;> linarith

theorem roundHE_int (k : ℤ) : roundHE (k : ℚ) = k := by
  have hf : (k : ℚ).floor = k := (rat_floor_eq _).trans (Int.floor_intCast k)
  unfold roundHE
  simp only [hf, sub_self]
  norm_num

theorem le_roundHE (q : ℚ) (k : ℤ) (h : (k : ℚ) ≤ q) : k ≤ roundHE q := by
  have hb := abs_le.mp (roundHE_bound q)
  have : ((k - 1 : ℤ) : ℚ) < (roundHE q : ℚ) := by push_cast; linarith [hb.1]
  have := Int.cast_lt.mp this
  omega

theorem roundHE_le (q : ℚ) (k : ℤ) (h : q ≤ (k : ℚ)) : roundHE q ≤ k := by
  have hb := abs_le.mp (roundHE_bound q)
  have : (roundHE q : ℚ) < ((k + 1 : ℤ) : ℚ) := by push_cast; linarith [hb.2]
  have := Int.cast_lt.mp this
  omega

/-! ### fixed-point formatting -/

theorem scaled_eq (y : ℚ) (o : ℤ) (d : ℕ) : y / p10 o * p10 (d : ℤ) = y / p10 (o - d) := by
  rw [p10_sub]; field_simp [p10_ne]

/-- formatting with `d` decimals under a power `10^o` reads back within half a unit of the
    last printed place -/
theorem fmtFixed_bound (y : ℚ) (o : ℤ) (d : ℕ) :
    |(fmtFixed (y / p10 o) d : ℚ) * p10 (o - d) - y| ≤ 1 / 2 * p10 (o - d) := by
  unfold fmtFixed
  rw [scaled_eq]
  have hu := p10_pos (o - d)
  have hb := roundHE_bound (y / p10 (o - d))
  have : (roundHE (y / p10 (o - d)) : ℚ) * p10 (o - d) - y
      = ((roundHE (y / p10 (o - d)) : ℚ) - y / p10 (o - d)) * p10 (o - d) := by
    field_simp
  rw [this, abs_mul, abs_of_pos hu]
  exact mul_le_mul_of_nonneg_right hb hu.le

/-- a multiple of `10^pl` is printed exactly when the last printed place is at or below `pl` -/
theorem fmtFixed_exact (k : ℤ) (pl o : ℤ) (d : ℕ) (h : o - d ≤ pl) :
    (fmtFixed ((k : ℚ) * p10 pl / p10 o) d : ℚ) * p10 (o - d) = (k : ℚ) * p10 pl := by
  unfold fmtFixed
  rw [scaled_eq]
  obtain ⟨m, hm⟩ : ∃ m : ℕ, pl - (o - d) = (m : ℤ) := ⟨(pl - (o - d)).toNat, by omega⟩
  have hpl : p10 pl = p10 (o - d) * (10 : ℚ) ^ m := by
    rw [← p10_nat, ← hm, ← p10_add]; congr 1; ring
  have : (k : ℚ) * p10 pl / p10 (o - d) = ((k * 10 ^ m : ℤ) : ℚ) := by
    rw [hpl]; push_cast; field_simp [p10_ne]
  rw [this, roundHE_int, hpl]; push_cast; ring

theorem isMult_of_int (k : ℤ) (pl : ℤ) : IsMult ((k : ℚ) * p10 pl) pl := by
  unfold IsMult
  rw [mul_div_assoc, div_self (p10_ne pl), mul_one, rat_floor_eq, Int.floor_intCast]

theorem isMult_of_int_ge (k : ℤ) (a pl : ℤ) (h : pl ≤ a) : IsMult ((k : ℚ) * p10 a) pl := by
  obtain ⟨m, hm⟩ : ∃ m : ℕ, a - pl = (m : ℤ) := ⟨(a - pl).toNat, by omega⟩
  have : p10 a = (10 : ℚ) ^ m * p10 pl := by
    rw [← p10_nat, ← hm, ← p10_add]; congr 1; ring
  rw [this, ← mul_assoc]
  have : (k : ℚ) * (10 : ℚ) ^ m = ((k * 10 ^ m : ℤ) : ℚ) := by push_cast; ring
  rw [this]; exact isMult_of_int _ _


end QExPy.Printing

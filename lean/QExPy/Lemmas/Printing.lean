/-
  Helper lemmas for C09: powers of ten, exact ⌊log₁₀⌋, half-even rounding, fixed-point formatting.
-/
import QExPy.Model.Printing
import Mathlib.Data.Rat.Floor
import Mathlib.Algebra.Order.Field.Power
import Mathlib.Tactic.Linarith
import Mathlib.Tactic.NormNum
import Mathlib.Tactic.Positivity
import Mathlib.Tactic.Ring
import Mathlib.Tactic.FieldSimp

namespace QExPy.Printing

/-! ### powers of ten -/

theorem p10_def (k : ℤ) : p10 k = (10 : ℚ) ^ k := rfl

theorem p10_pos (k : ℤ) : 0 < p10 k := by rw [p10_def]; positivity

theorem p10_ne (k : ℤ) : p10 k ≠ 0 := (p10_pos k).ne'

theorem p10_zero : p10 0 = 1 := by simp [p10_def]

theorem p10_add (a b : ℤ) : p10 (a + b) = p10 a * p10 b := by
  simp only [p10_def]; exact zpow_add₀ (by norm_num) a b

theorem p10_sub (a b : ℤ) : p10 (a - b) = p10 a / p10 b := by
  simp only [p10_def]; exact zpow_sub₀ (by norm_num) a b

theorem p10_succ (a : ℤ) : p10 (a + 1) = p10 a * 10 := by
  rw [p10_add]; simp [p10_def]

theorem p10_nat (n : ℕ) : p10 (n : ℤ) = (10 : ℚ) ^ n := by simp [p10_def]

theorem p10_le_iff (a b : ℤ) : p10 a ≤ p10 b ↔ a ≤ b := by
  simp only [p10_def]; exact zpow_le_zpow_iff_right₀ (by norm_num)

theorem p10_lt_iff (a b : ℤ) : p10 a < p10 b ↔ a < b := by
  simp only [p10_def]; exact zpow_lt_zpow_iff_right₀ (by norm_num)

theorem qabs_eq_abs (q : ℚ) : qabs q = |q| := by
  unfold qabs
  split
  · rename_i h; rw [abs_of_neg h]
  · rename_i h; rw [abs_of_nonneg (not_lt.mp h)]

/-! ### ⌊log₁₀⌋ on naturals and rationals -/

theorem natLog10_spec (n : ℕ) (h : 1 ≤ n) : 10 ^ natLog10 n ≤ n ∧ n < 10 ^ (natLog10 n + 1) := by
  induction n using Nat.strong_induction_on with
  | _ n ih =>
    rw [natLog10]
    split
    · rename_i h10; simp; omega
    · rename_i h10
      have hdiv : 1 ≤ n / 10 := by omega
      have := ih (n / 10) (by omega) hdiv
      obtain ⟨h1, h2⟩ := this
      constructor
      · calc 10 ^ (natLog10 (n / 10) + 1) = 10 ^ natLog10 (n / 10) * 10 := by ring
          _ ≤ (n / 10) * 10 := Nat.mul_le_mul_right 10 h1
          _ ≤ n := Nat.div_mul_le_self n 10
      · have : n < (n / 10 + 1) * 10 := by omega
        calc n < (n / 10 + 1) * 10 := this
          _ ≤ 10 ^ (natLog10 (n / 10) + 1) * 10 := Nat.mul_le_mul_right 10 h2
          _ = 10 ^ (natLog10 (n / 10) + 1 + 1) := by ring

theorem abs_eq_div (q : ℚ) : |q| = (q.num.natAbs : ℚ) / (q.den : ℚ) := by
  conv_lhs => rw [← Rat.num_div_den q]
  rw [abs_div, Nat.abs_cast, Nat.cast_natAbs, Int.cast_abs]

/-- the two-sided estimate behind `ilog10`: with `d = ⌊log a⌋ − ⌊log b⌋`, `10^(d−1) < a/b < 10^(d+1)` -/
theorem ilog10_bracket (q : ℚ) (hq : q ≠ 0) :
    let d : ℤ := (natLog10 q.num.natAbs : ℤ) - (natLog10 q.den : ℤ)
    p10 (d - 1) < |q| ∧ |q| < p10 (d + 1) := by
  intro d
  have ha : 1 ≤ q.num.natAbs := by
    have := Rat.num_ne_zero.mpr hq
    omega
  have hb : 1 ≤ q.den := q.den_pos
  obtain ⟨a1, a2⟩ := natLog10_spec _ ha
  obtain ⟨b1, b2⟩ := natLog10_spec _ hb
  have a1' : (10 : ℚ) ^ natLog10 q.num.natAbs ≤ (q.num.natAbs : ℚ) := by exact_mod_cast a1
  have a2' : (q.num.natAbs : ℚ) < (10 : ℚ) ^ (natLog10 q.num.natAbs + 1) := by exact_mod_cast a2
  have b1' : (10 : ℚ) ^ natLog10 q.den ≤ (q.den : ℚ) := by exact_mod_cast b1
  have b2' : (q.den : ℚ) < (10 : ℚ) ^ (natLog10 q.den + 1) := by exact_mod_cast b2
  have hbpos : (0 : ℚ) < (q.den : ℚ) := by exact_mod_cast hb
  rw [abs_eq_div]
  have e1 : p10 (d - 1) = (10 : ℚ) ^ natLog10 q.num.natAbs / (10 : ℚ) ^ (natLog10 q.den + 1) := by
    have : d - 1 = ((natLog10 q.num.natAbs : ℕ) : ℤ) - ((natLog10 q.den + 1 : ℕ) : ℤ) := by
      simp only [d]; push_cast; ring
    rw [this, p10_sub, p10_nat, p10_nat]
  have e2 : p10 (d + 1) = (10 : ℚ) ^ (natLog10 q.num.natAbs + 1) / (10 : ℚ) ^ natLog10 q.den := by
    have : d + 1 = ((natLog10 q.num.natAbs + 1 : ℕ) : ℤ) - ((natLog10 q.den : ℕ) : ℤ) := by
      simp only [d]; push_cast; ring
    rw [this, p10_sub, p10_nat, p10_nat]
  constructor
  · rw [e1, div_lt_div_iff₀ (by positivity) hbpos]
    calc (10 : ℚ) ^ natLog10 q.num.natAbs * (q.den : ℚ)
        < (10 : ℚ) ^ natLog10 q.num.natAbs * (10 : ℚ) ^ (natLog10 q.den + 1) := by
          apply mul_lt_mul_of_pos_left b2' (by positivity)
      _ ≤ (q.num.natAbs : ℚ) * (10 : ℚ) ^ (natLog10 q.den + 1) := by
          apply mul_le_mul_of_nonneg_right a1' (by positivity)
  · rw [e2, div_lt_div_iff₀ hbpos (by positivity)]
    calc (q.num.natAbs : ℚ) * (10 : ℚ) ^ natLog10 q.den
        < (10 : ℚ) ^ (natLog10 q.num.natAbs + 1) * (10 : ℚ) ^ natLog10 q.den := by
          apply mul_lt_mul_of_pos_right a2' (by positivity)
      _ ≤ (10 : ℚ) ^ (natLog10 q.num.natAbs + 1) * (q.den : ℚ) := by
          apply mul_le_mul_of_nonneg_left b1' (by positivity)

/-- `ilog10 q` is the decimal order of magnitude: `10^k ≤ |q| < 10^(k+1)` -/
theorem ilog10_spec (q : ℚ) (hq : q ≠ 0) : p10 (ilog10 q) ≤ |q| ∧ |q| < p10 (ilog10 q + 1) := by
  obtain ⟨h1, h2⟩ := ilog10_bracket q hq
  simp only [ilog10, hq, if_false, qabs_eq_abs]
  split
  · rename_i h; exact ⟨h, h2⟩
  · rename_i h
    refine ⟨le_of_lt h1, ?_⟩
    rw [sub_add_cancel]; exact not_le.mp h

/-- the order of magnitude is unique -/
theorem ilog10_unique (q : ℚ) (k : ℤ) (h1 : p10 k ≤ |q|) (h2 : |q| < p10 (k + 1)) :
    ilog10 q = k := by
  have hq : q ≠ 0 := by
    intro h; rw [h, abs_zero] at h1; exact absurd (p10_pos k) (not_lt.mpr h1)
  obtain ⟨s1, s2⟩ := ilog10_spec q hq
  have := (p10_lt_iff _ _).mp (lt_of_le_of_lt h1 s2)
  have := (p10_lt_iff _ _).mp (lt_of_le_of_lt s1 h2)
  omega


/-! ### half-even rounding -/

theorem rat_floor_eq (q : ℚ) : q.floor = ⌊q⌋ := rfl

/-- Python's `round` moves a number by at most one half -/
theorem roundHE_bound (q : ℚ) : |(roundHE q : ℚ) - q| ≤ 1 / 2 := by
  have h1 : (q.floor : ℚ) ≤ q := Int.floor_le q
  have h2 : q < (q.floor : ℚ) + 1 := Int.lt_floor_add_one q
  unfold roundHE
  generalize q.floor = f at *
  by_cases c1 : q - (f : ℚ) < 1 / 2
  · simp only [if_pos c1]; rw [abs_le]; constructor <;> linarith
  · simp only [if_neg c1]
    by_cases c2 : 1 / 2 < q - (f : ℚ)
    · simp only [if_pos c2]; push_cast; rw [abs_le]; constructor <;> linarith
    · simp only [if_neg c2]
      have c3 : q - (f : ℚ) = 1 / 2 := le_antisymm (not_lt.mp c2) (not_lt.mp c1)
      by_cases c4 : f % 2 = 0
      · simp only [if_pos c4]; rw [abs_le]; constructor <;> linarith
      · simp only [if_neg c4]; push_cast; rw [abs_le]; constructor <;> linarith

theorem roundHE_int (k : ℤ) : roundHE (k : ℚ) = k := by
  have hf : (k : ℚ).floor = k := (rat_floor_eq _).trans (Int.floor_intCast k)
  unfold roundHE
  simp only [hf, sub_self]
  norm_num

theorem le_roundHE (q : ℚ) (k : ℤ) (h : (k : ℚ) ≤ q) : k ≤ roundHE q := by
  have hb := abs_le.mp (roundHE_bound q)
  have : ((k - 1 : ℤ) : ℚ) < (roundHE q : ℚ) := by push_cast; linarith [hb.1]
  have := Int.cast_lt.mp this
  omega

theorem roundHE_le (q : ℚ) (k : ℤ) (h : q ≤ (k : ℚ)) : roundHE q ≤ k := by
  have hb := abs_le.mp (roundHE_bound q)
  have : (roundHE q : ℚ) < ((k + 1 : ℤ) : ℚ) := by push_cast; linarith [hb.2]
  have := Int.cast_lt.mp this
  omega

/-! ### fixed-point formatting -/

theorem scaled_eq (y : ℚ) (o : ℤ) (d : ℕ) : y / p10 o * p10 (d : ℤ) = y / p10 (o - d) := by
  rw [p10_sub]; field_simp [p10_ne]

/-- formatting with `d` decimals under a power `10^o` reads back within half a unit of the
    last printed place -/
theorem fmtFixed_bound (y : ℚ) (o : ℤ) (d : ℕ) :
    |(fmtFixed (y / p10 o) d : ℚ) * p10 (o - d) - y| ≤ 1 / 2 * p10 (o - d) := by
  unfold fmtFixed
  rw [scaled_eq]
  have hu := p10_pos (o - d)
  have hb := roundHE_bound (y / p10 (o - d))
  have : (roundHE (y / p10 (o - d)) : ℚ) * p10 (o - d) - y
      = ((roundHE (y / p10 (o - d)) : ℚ) - y / p10 (o - d)) * p10 (o - d) := by
    field_simp
  rw [this, abs_mul, abs_of_pos hu]
  exact mul_le_mul_of_nonneg_right hb hu.le

/-- a multiple of `10^pl` is printed exactly when the last printed place is at or below `pl` -/
theorem fmtFixed_exact (k : ℤ) (pl o : ℤ) (d : ℕ) (h : o - d ≤ pl) :
    (fmtFixed ((k : ℚ) * p10 pl / p10 o) d : ℚ) * p10 (o - d) = (k : ℚ) * p10 pl := by
  unfold fmtFixed
  rw [scaled_eq]
  obtain ⟨m, hm⟩ : ∃ m : ℕ, pl - (o - d) = (m : ℤ) := ⟨(pl - (o - d)).toNat, by omega⟩
  have hpl : p10 pl = p10 (o - d) * (10 : ℚ) ^ m := by
    rw [← p10_nat, ← hm, ← p10_add]; congr 1; ring
  have : (k : ℚ) * p10 pl / p10 (o - d) = ((k * 10 ^ m : ℤ) : ℚ) := by
    rw [hpl]; push_cast; field_simp [p10_ne]
  rw [this, roundHE_int, hpl]; push_cast; ring

theorem isMult_of_int (k : ℤ) (pl : ℤ) : IsMult ((k : ℚ) * p10 pl) pl := by
  unfold IsMult
  rw [mul_div_assoc, div_self (p10_ne pl), mul_one, rat_floor_eq, Int.floor_intCast]

theorem isMult_of_int_ge (k : ℤ) (a pl : ℤ) (h : pl ≤ a) : IsMult ((k : ℚ) * p10 a) pl := by
  obtain ⟨m, hm⟩ : ∃ m : ℕ, a - pl = (m : ℤ) := ⟨(a - pl).toNat, by omega⟩
  have : p10 a = (10 : ℚ) ^ m * p10 pl := by
    rw [← p10_nat, ← hm, ← p10_add]; congr 1; ring
  rw [this, ← mul_assoc]
  have : (k : ℚ) * (10 : ℚ) ^ m = ((k * 10 ^ m : ℤ) : ℚ) := by push_cast; ring
  rw [this]; exact isMult_of_int _ _


/-! ### rounding to n significant figures -/

theorem tol_eq : tol = 11 / 20 := by unfold tol; norm_num

/-- `x` scaled to the place of its n-th significant figure lies in `[10^(n-1), 10^n)` -/
theorem sig_scaled (x : ℚ) (hx : x ≠ 0) (k : ℕ) :
    (10 : ℚ) ^ k ≤ |x / p10 (ilog10 x - (k + 1 : ℕ) + 1)| ∧
      |x / p10 (ilog10 x - (k + 1 : ℕ) + 1)| < (10 : ℚ) ^ (k + 1) := by
  obtain ⟨s1, s2⟩ := ilog10_spec x hx
  set p0 := ilog10 x - (k + 1 : ℕ) + 1 with hp0
  have hb := p10_pos p0
  rw [abs_div, abs_of_pos hb]
  have e1 : p10 (ilog10 x) = (10 : ℚ) ^ k * p10 p0 := by
    rw [← p10_nat, ← p10_add]; congr 1; rw [hp0]; push_cast; ring
  have e2 : p10 (ilog10 x + 1) = (10 : ℚ) ^ (k + 1) * p10 p0 := by
    rw [← p10_nat, ← p10_add]; congr 1; rw [hp0]; push_cast; ring
  constructor
  · rw [le_div_iff₀ hb, ← e1]; exact s1
  · rw [div_lt_iff₀ hb, ← e2]; exact s2

/-- **rounding `x` to `n = k+1` significant figures.** With `p₀ = ilog10 x − n + 1` and
    `m = round(x / 10^p₀)`: `10^(n−1) ≤ |m| ≤ 10^n`; the rounded number `m·10^p₀` keeps the order
    of magnitude of `x` unless `|m| = 10^n` (a carry into the next decade), in which case the order
    goes up by one and `|x|/10^p₀ ≥ 10^n − 1/2`. -/
theorem sig_round (x : ℚ) (hx : x ≠ 0) (k : ℕ) :
    let p0 := ilog10 x - (k + 1 : ℕ) + 1
    let m := roundHE (x / p10 p0)
    ((10 : ℚ) ^ k ≤ |(m : ℚ)| ∧ |(m : ℚ)| ≤ (10 : ℚ) ^ (k + 1)) ∧
    (|(m : ℚ)| < (10 : ℚ) ^ (k + 1) → ilog10 ((m : ℚ) * p10 p0) = ilog10 x) ∧
    (|(m : ℚ)| = (10 : ℚ) ^ (k + 1) →
      ilog10 ((m : ℚ) * p10 p0) = ilog10 x + 1 ∧ p10 (k + 1 : ℕ) - tol ≤ |x| / p10 p0) := by
  intro p0 m
  obtain ⟨y1, y2⟩ := sig_scaled x hx k
  have hb := p10_pos p0
  have hround := abs_le.mp (roundHE_bound (x / p10 p0))
  have e1 : p10 (ilog10 x) = (10 : ℚ) ^ k * p10 p0 := by
    rw [← p10_nat, ← p10_add]; congr 1; simp only [p0]; push_cast; ring
  have e2 : p10 (ilog10 x + 1) = (10 : ℚ) ^ (k + 1) * p10 p0 := by
    rw [← p10_nat, ← p10_add]; congr 1; simp only [p0]; push_cast; ring
  have e3 : p10 (ilog10 x + 1 + 1) = (10 : ℚ) ^ (k + 1) * p10 p0 * 10 := by
    rw [p10_succ, e2]
  have hm : (10 : ℚ) ^ k ≤ |(m : ℚ)| ∧ |(m : ℚ)| ≤ (10 : ℚ) ^ (k + 1) := by
    rcases lt_or_gt_of_ne hx with hneg | hpos
    · have hy : x / p10 p0 < 0 := div_neg_of_neg_of_pos hneg hb
      rw [abs_of_neg hy] at y1 y2
      have c1 : m ≤ -(10 ^ k : ℤ) := roundHE_le _ _ (by push_cast; linarith)
      have c2 : -(10 ^ (k + 1) : ℤ) ≤ m := le_roundHE _ _ (by push_cast; linarith)
      have c1' : (m : ℚ) ≤ -(10 : ℚ) ^ k := by exact_mod_cast c1
      have c2' : -(10 : ℚ) ^ (k + 1) ≤ (m : ℚ) := by exact_mod_cast c2
      have : (m : ℚ) < 0 := by have : (0 : ℚ) < (10 : ℚ) ^ k := by positivity
                               linarith
      rw [abs_of_neg this]; constructor <;> linarith
    · have hy : 0 < x / p10 p0 := div_pos hpos hb
      rw [abs_of_pos hy] at y1 y2
      have c1 : (10 ^ k : ℤ) ≤ m := le_roundHE _ _ (by push_cast; linarith)
      have c2 : m ≤ (10 ^ (k + 1) : ℤ) := roundHE_le _ _ (by push_cast; linarith)
      have c1' : (10 : ℚ) ^ k ≤ (m : ℚ) := by exact_mod_cast c1
      have c2' : (m : ℚ) ≤ (10 : ℚ) ^ (k + 1) := by exact_mod_cast c2
      have : (0 : ℚ) < (m : ℚ) := by have : (0 : ℚ) < (10 : ℚ) ^ k := by positivity
                                     linarith
      rw [abs_of_pos this]; constructor <;> linarith
  refine ⟨hm, ?_, ?_⟩
  · intro hlt
    apply ilog10_unique
    · rw [abs_mul, abs_of_pos hb, e1]; exact mul_le_mul_of_nonneg_right hm.1 hb.le
    · rw [abs_mul, abs_of_pos hb, e2]; exact mul_lt_mul_of_pos_right hlt hb
  · intro heq
    constructor
    · apply ilog10_unique
      · rw [abs_mul, abs_of_pos hb, e2, heq]
      · rw [abs_mul, abs_of_pos hb, e3, heq]
        have : (0 : ℚ) < (10 : ℚ) ^ (k + 1) * p10 p0 := by positivity
        linarith
    · rw [p10_nat, tol_eq, ← abs_of_pos hb, ← abs_div]
      have habs : |(m : ℚ)| - |x / p10 p0| ≤ |(m : ℚ) - x / p10 p0| := abs_sub_abs_le_abs_sub _ _
      have : |(m : ℚ) - x / p10 p0| ≤ 1 / 2 := roundHE_bound _
      rw [heq] at habs
      linarith


/-! ### the interface to the generated constants (these break when printing.py's constants change) -/

theorem backoffErr_eq (o n : ℤ) : Gen.backoffErr o n = o - n + 1 := by
  simp only [Gen.backoffErr]; ring

theorem backoffVal_eq (o n : ℤ) : Gen.backoffVal o n = o - n + 1 := by
  simp only [Gen.backoffVal]; ring

theorem decimalsRaw_eq (ord n sh : ℤ) : Gen.decimalsRaw ord n sh = sh - (ord - n + 1) := by
  simp only [Gen.decimalsRaw]; ring

theorem minDecimals_eq : Gen.minDecimals = 0 := rfl

theorem roundErr_eq (q : ℚ) : roundK Gen.roundErrKind q = roundHE q := rfl

theorem roundVal_eq (q : ℚ) : roundK Gen.roundValKind q = roundHE q := rfl

theorem sciFallback_eq : Gen.sciFallbackOrder = 0 := rfl

/-! ### one printed number -/

/-- a number rounded at `10^p₀` and then printed with `d` decimals under the power `10^o`,
    when the last printed place `o − d` is at or below `p₀` (printed exactly) or exactly one
    above it (second rounding, the carry case) -/
theorem num_ok (z : ℚ) (p0 o : ℤ) (d : ℕ) (pl : ℤ)
    (hpl : (pl = p0 ∧ o - d ≤ p0) ∨ (pl = p0 + 1 ∧ o - d = p0 + 1)) :
    IsMult ((fmtFixed ((roundHE (z / p10 p0) : ℚ) * p10 p0 / p10 o) d : ℚ) * p10 (o - d)) pl ∧
    qabs ((fmtFixed ((roundHE (z / p10 p0) : ℚ) * p10 p0 / p10 o) d : ℚ) * p10 (o - d) - z)
      ≤ tol * p10 pl := by
  have hb := p10_pos p0
  have h1 : |(roundHE (z / p10 p0) : ℚ) * p10 p0 - z| ≤ 1 / 2 * p10 p0 := by
    have hr := roundHE_bound (z / p10 p0)
    have : (roundHE (z / p10 p0) : ℚ) * p10 p0 - z
        = ((roundHE (z / p10 p0) : ℚ) - z / p10 p0) * p10 p0 := by field_simp
    rw [this, abs_mul, abs_of_pos hb]
    exact mul_le_mul_of_nonneg_right hr hb.le
  rw [qabs_eq_abs, tol_eq]
  rcases hpl with ⟨rfl, hle⟩ | ⟨rfl, heq⟩
  · rw [fmtFixed_exact _ _ _ _ hle]
    exact ⟨isMult_of_int _ _, by linarith⟩
  · rw [heq]
    refine ⟨isMult_of_int _ _, ?_⟩
    have h2 := fmtFixed_bound ((roundHE (z / p10 p0) : ℚ) * p10 p0) o d
    rw [heq] at h2
    have h10 : p10 (p0 + 1) = p10 p0 * 10 := p10_succ p0
    have tri := abs_sub_le
      ((fmtFixed ((roundHE (z / p10 p0) : ℚ) * p10 p0 / p10 o) d : ℚ) * p10 (p0 + 1))
      ((roundHE (z / p10 p0) : ℚ) * p10 p0) z
    rw [h10] at h2 tri ⊢
    linarith

/-- a number printed with `d` decimals under `10^o` without prior rounding -/
theorem raw_ok (z : ℚ) (o : ℤ) (d : ℕ) :
    qabs ((fmtFixed (z / p10 o) d : ℚ) * p10 (o - d) - z) ≤ tol * p10 (o - d) := by
  rw [qabs_eq_abs, tol_eq]
  have := fmtFixed_bound z o d
  have := p10_pos (o - d)
  linarith

/-! ### where the last printed place falls -/

/-- the clip of `__find_number_of_decimals` -/
def decOf (ord : ℤ) (n : ℕ) (o : ℤ) : ℕ :=
  if Gen.minDecimals < Gen.decimalsRaw ord n o then (Gen.decimalsRaw ord n o).toNat
  else Gen.minDecimals.toNat

/-- **the printed place.** `x ≠ 0` is rounded to `n = k+1` significant figures and the number of
    decimals is counted on the rounded number: the last printed place `o − d` is `min(pl, o)`
    where `pl` is the place of the n-th figure of `x`, or one above it when rounding carried. -/
theorem place_ok (x : ℚ) (hx : x ≠ 0) (k : ℕ) (o : ℤ) :
    let p0 := ilog10 x - (k + 1 : ℕ) + 1
    let rx := (roundHE (x / p10 p0) : ℚ) * p10 p0
    let d := decOf (ilog10 rx) (k + 1) o
    rx ≠ 0 ∧
    ∃ pl : ℤ, ((pl = p0 ∧ o - d ≤ p0) ∨ (pl = p0 + 1 ∧ o - d = p0 + 1)) ∧
      o - (d : ℤ) = min pl o ∧
      (pl = p0 ∨ (pl = p0 + 1 ∧ p10 (k + 1 : ℕ) - tol ≤ qabs x / p10 p0)) := by
  intro p0 rx d
  obtain ⟨⟨m1, m2⟩, hlt, heq⟩ := sig_round x hx k
  have hb := p10_pos p0
  have hrx : rx ≠ 0 := by
    have : (0 : ℚ) < |(roundHE (x / p10 p0) : ℚ)| := lt_of_lt_of_le (by positivity) m1
    have := abs_pos.mp this
    exact mul_ne_zero this hb.ne'
  refine ⟨hrx, ?_⟩
  have hd : (d : ℤ) = if 0 < o - (ilog10 rx - (k + 1 : ℕ) + 1) then o - (ilog10 rx - (k + 1 : ℕ) + 1) else 0 := by
    simp only [d, decOf, minDecimals_eq, decimalsRaw_eq]
    split
    · rename_i h; push_cast at h ⊢; rw [Int.toNat_of_nonneg (le_of_lt h)]
    · simp
  rcases lt_or_eq_of_le m2 with hl | he
  · have hord : ilog10 rx = ilog10 x := hlt hl
    rw [hord] at hd
    refine ⟨p0, Or.inl ⟨rfl, ?_⟩, ?_, Or.inl rfl⟩
    · split at hd <;> omega
    · split at hd <;> omega
  · obtain ⟨hord, hthr⟩ := heq he
    rw [hord] at hd
    by_cases hc : p0 + 1 ≤ o
    · refine ⟨p0 + 1, Or.inr ⟨rfl, ?_⟩, ?_, Or.inr ⟨rfl, ?_⟩⟩
      · split at hd <;> omega
      · split at hd <;> omega
      · rw [qabs_eq_abs]; exact hthr
    · refine ⟨p0, Or.inl ⟨rfl, ?_⟩, ?_, Or.inl rfl⟩
      · split at hd <;> omega
      · split at hd <;> omega


/-! ### the printer at an arbitrary power of ten -/

/-- what both printers do after their special cases: round to significant figures, count the
    decimals on the rounded pair (shifted by the power `o`), format the scaled numbers.
    `__default_printer` is `o = 0`, `__scientific_printer` is `o =` the order of magnitude. -/
def genP (cfg : PCfg) (v e : ℚ) (o : ℤ) (sci latex : Bool) : Printed :=
  let r := roundSig cfg v e
  let d := numDecimals cfg r.1 r.2 o
  { mantV := fmtFixed (r.1 / p10 o) d, mantE := if e ≠ 0 then fmtFixed (r.2 / p10 o) d else 0,
    decV := d, decE := if e ≠ 0 then d else 0, pow10 := o, errBare := decide (e = 0),
    sci := sci, latex := latex }

theorem defaultPrinter_eq (cfg : PCfg) (v e : ℚ) (latex : Bool) (h : ¬(v = 0 ∧ e = 0)) :
    defaultPrinter cfg v e latex = genP cfg v e 0 false latex := by
  simp only [defaultPrinter, genP, if_neg h, p10_zero, div_one]

theorem PrintedOK_sci_irrel (v e : ℚ) (cfg : PCfg) (p : Printed) (s l b : Bool)
    (h : PrintedOK v e cfg p) : PrintedOK v e cfg { p with sci := s, latex := l, errBare := b } := h

theorem zeroForm_ok (cfg : PCfg) (latex : Bool) : PrintedOK 0 0 cfg (zeroForm latex) := by
  unfold PrintedOK pivot zeroForm
  simp [qabs, tol, p10_zero]
  norm_num

/-- **the core of C09.** For every value, uncertainty, configuration with `n ≥ 1` and every power
    of ten `o`, the output of the generic printer satisfies `PrintedOK`. -/
theorem genP_ok (cfg : PCfg) (v e : ℚ) (o : ℤ) (sci latex : Bool) (hn : 1 ≤ cfg.n) :
    PrintedOK v e cfg (genP cfg v e o sci latex) := by
  obtain ⟨k, hk⟩ : ∃ k, cfg.n = k + 1 := ⟨cfg.n - 1, by omega⟩
  unfold PrintedOK
  refine ⟨by intro he; simp [genP, he], ?_⟩
  by_cases hx : pivot cfg.mode v e = 0
  · -- no number fixes a place: nothing is rounded beforehand, both numbers are faithful
    simp only [hx, if_true]
    have hr : roundSig cfg v e = (v, e) := by
      unfold pivot at hx
      unfold roundSig
      cases hm : cfg.mode.onError <;> simp [hm] at hx ⊢ <;> simp [hx]
    simp only [genP, hr]
    refine ⟨raw_ok v o _, ?_⟩
    intro he
    simp only [if_pos he]
    exact raw_ok e o _
  · simp only [hx, if_false]
    obtain ⟨hrx, pl, hpl, hplace, hcarry⟩ := place_ok (pivot cfg.mode v e) hx k o
    -- the rounded pair and the number of decimals, in terms of the pivot
    have hp0 : ilog10 (pivot cfg.mode v e) - (cfg.n : ℤ) + 1
        = ilog10 (pivot cfg.mode v e) - ((k + 1 : ℕ) : ℤ) + 1 := by rw [hk]
    set p0 := ilog10 (pivot cfg.mode v e) - ((k + 1 : ℕ) : ℤ) + 1 with hp0def
    have hr : roundSig cfg v e =
        ((roundHE (v / p10 p0) : ℚ) * p10 p0, (roundHE (e / p10 p0) : ℚ) * p10 p0) := by
      unfold pivot at hx hp0def
      unfold roundSig
      cases hm : cfg.mode.onError <;> simp only [hm, if_true, if_false, Bool.false_eq_true] at hx hp0def ⊢
      · simp only [if_neg hx, backoffVal_eq, roundErr_eq, roundVal_eq, hk, ← hp0def]
      · simp only [if_neg hx, backoffErr_eq, roundErr_eq, roundVal_eq, hk, ← hp0def]
    have hd : numDecimals cfg ((roundHE (v / p10 p0) : ℚ) * p10 p0)
        ((roundHE (e / p10 p0) : ℚ) * p10 p0) o
        = decOf (ilog10 ((roundHE (pivot cfg.mode v e / p10 p0) : ℚ) * p10 p0)) (k + 1) o := by
      unfold pivot at hrx ⊢
      unfold numDecimals decOf
      cases hm : cfg.mode.onError <;>
        simp only [hm, if_true, if_false, Bool.false_eq_true, ne_eq] at hrx ⊢ <;>
        simp only [hrx, not_false_eq_true, if_true, hk]
    rw [hp0]
    have hgen : genP cfg v e o sci latex =
        { mantV := fmtFixed ((roundHE (v / p10 p0) : ℚ) * p10 p0 / p10 o)
            (decOf (ilog10 ((roundHE (pivot cfg.mode v e / p10 p0) : ℚ) * p10 p0)) (k + 1) o),
          mantE := if e ≠ 0 then fmtFixed ((roundHE (e / p10 p0) : ℚ) * p10 p0 / p10 o)
            (decOf (ilog10 ((roundHE (pivot cfg.mode v e / p10 p0) : ℚ) * p10 p0)) (k + 1) o) else 0,
          decV := decOf (ilog10 ((roundHE (pivot cfg.mode v e / p10 p0) : ℚ) * p10 p0)) (k + 1) o,
          decE := if e ≠ 0 then
            decOf (ilog10 ((roundHE (pivot cfg.mode v e / p10 p0) : ℚ) * p10 p0)) (k + 1) o else 0,
          pow10 := o, errBare := decide (e = 0), sci := sci, latex := latex } := by
      simp only [genP, hr, hd]
    rw [hgen]
    set d := decOf (ilog10 ((roundHE (pivot cfg.mode v e / p10 p0) : ℚ) * p10 p0)) (k + 1) o with hddef
    have hV := num_ok v p0 o d pl hpl
    have hE := num_ok e p0 o d pl hpl
    have hPlace : PlaceOK v e
        { mantV := fmtFixed ((roundHE (v / p10 p0) : ℚ) * p10 p0 / p10 o) d,
          mantE := if e ≠ 0 then fmtFixed ((roundHE (e / p10 p0) : ℚ) * p10 p0 / p10 o) d else 0,
          decV := d, decE := if e ≠ 0 then d else 0, pow10 := o, errBare := decide (e = 0),
          sci := sci, latex := latex } pl := by
      unfold PlaceOK
      refine ⟨hplace, hV.1, hV.2, ?_⟩
      intro he
      simp only [if_pos he]
      exact hE
    rcases hcarry with rfl | ⟨rfl, hthr⟩
    · exact Or.inl hPlace
    · refine Or.inr ⟨?_, hPlace⟩
      rw [hk]; exact hthr


/-! ### what the predicate says about the pivot -/

theorem isMult_witness (q : ℚ) (k : ℤ) (h : IsMult q k) : ∃ m : ℤ, q = (m : ℚ) * p10 k := by
  refine ⟨(q / p10 k).floor, ?_⟩
  unfold IsMult at h
  rw [h]; field_simp [p10_ne]

theorem int_abs_ge_of_near (m : ℤ) (K : ℕ) (h : (10 : ℚ) ^ K - 1 < |(m : ℚ)|) :
    (10 : ℚ) ^ K ≤ |(m : ℚ)| := by
  have h1 : (((10 ^ K - 1 : ℤ)) : ℚ) < ((|m| : ℤ) : ℚ) := by push_cast; exact h
  have h2 := Int.cast_lt.mp h1
  have h3 : (10 ^ K : ℤ) ≤ |m| := by omega
  have : ((10 ^ K : ℤ) : ℚ) ≤ ((|m| : ℤ) : ℚ) := Int.cast_le.mpr h3
  push_cast at this; exact this

theorem int_abs_le_of_near (m : ℤ) (K : ℕ) (h : |(m : ℚ)| < (10 : ℚ) ^ K + 1) :
    |(m : ℚ)| ≤ (10 : ℚ) ^ K := by
  have h1 : ((|m| : ℤ) : ℚ) < (((10 ^ K + 1 : ℤ)) : ℚ) := by push_cast; exact h
  have h2 := Int.cast_lt.mp h1
  have h3 : |m| ≤ (10 ^ K : ℤ) := by omega
  have : ((|m| : ℤ) : ℚ) ≤ ((10 ^ K : ℤ) : ℚ) := Int.cast_le.mpr h3
  push_cast at this; exact this

/-- what `PlaceOK` says about the number that fixes the place: read back in units of the
    rounding place it is an integer of `n` digits (or `10^n`, a carry) -/
theorem pivot_digits (x px : ℚ) (hx : x ≠ 0) (k : ℕ) (pl : ℤ)
    (hpl : pl = ilog10 x - (k + 1 : ℕ) + 1 ∨
      (pl = ilog10 x - (k + 1 : ℕ) + 1 + 1 ∧
        p10 (k + 1 : ℕ) - tol ≤ qabs x / p10 (ilog10 x - (k + 1 : ℕ) + 1)))
    (hm : IsMult px pl) (hb : qabs (px - x) ≤ tol * p10 pl) :
    ∃ m : ℤ, px = (m : ℚ) * p10 pl ∧ (10 : ℚ) ^ k ≤ |(m : ℚ)| ∧ |(m : ℚ)| ≤ (10 : ℚ) ^ (k + 1) := by
  obtain ⟨m, rfl⟩ := isMult_witness px pl hm
  refine ⟨m, rfl, ?_⟩
  obtain ⟨y1, y2⟩ := sig_scaled x hx k
  set p0 := ilog10 x - (k + 1 : ℕ) + 1 with hp0
  have hp0pos := p10_pos p0
  rw [qabs_eq_abs, tol_eq] at hb
  have hk : (1 : ℚ) ≤ (10 : ℚ) ^ k := one_le_pow₀ (by norm_num)
  rcases hpl with rfl | ⟨rfl, hthr⟩
  · -- |m - y| ≤ 11/20
    have hmy : |(m : ℚ) - x / p10 p0| ≤ 11 / 20 := by
      have : (m : ℚ) - x / p10 p0 = ((m : ℚ) * p10 p0 - x) / p10 p0 := by field_simp
      rw [this, abs_div, abs_of_pos hp0pos, div_le_iff₀ hp0pos]; exact hb
    have t1 := abs_sub_abs_le_abs_sub (x / p10 p0) (m : ℚ)
    have t2 := abs_sub_abs_le_abs_sub (m : ℚ) (x / p10 p0)
    rw [abs_sub_comm] at t1
    constructor
    · apply int_abs_ge_of_near; linarith
    · apply int_abs_le_of_near; linarith
  · rw [qabs_eq_abs, p10_nat] at hthr
    have h10 : p10 (p0 + 1) = p10 p0 * 10 := p10_succ p0
    have hmy : |(m : ℚ) * 10 - x / p10 p0| ≤ 11 / 2 := by
      have : (m : ℚ) * 10 - x / p10 p0 = ((m : ℚ) * p10 (p0 + 1) - x) / p10 p0 := by
        rw [h10]; field_simp
      rw [this, abs_div, abs_of_pos hp0pos, div_le_iff₀ hp0pos]
      rw [h10] at hb ⊢; linarith
    have habs : |x / p10 p0| = |x| / p10 p0 := by rw [abs_div, abs_of_pos hp0pos]
    rw [← habs] at hthr
    have t1 := abs_sub_abs_le_abs_sub (x / p10 p0) ((m : ℚ) * 10)
    have t2 := abs_sub_abs_le_abs_sub ((m : ℚ) * 10) (x / p10 p0)
    rw [abs_sub_comm] at t1
    have hm10 : |(m : ℚ) * 10| = |(m : ℚ)| * 10 := by rw [abs_mul]; norm_num
    rw [hm10] at t1 t2
    have hpow : (10 : ℚ) ^ (k + 1) = (10 : ℚ) ^ k * 10 := pow_succ _ _
    constructor
    · apply int_abs_ge_of_near; rw [tol_eq] at hthr; nlinarith
    · have : |(m : ℚ)| ≤ (10 : ℚ) ^ k := by apply int_abs_le_of_near; nlinarith
      calc |(m : ℚ)| ≤ (10 : ℚ) ^ k := this
        _ ≤ (10 : ℚ) ^ (k + 1) := by rw [hpow]; nlinarith


end QExPy.Printing

/- helper lemma for the session theorems of Props/C07.lean -/
import QExPy.Model.Session

namespace QExPy
open Session

/-- records among objects made later never answer for a pair of earlier objects -/
theorem find_shift_none (b i j : Nat) (hi : i < b) (hj : j < b) (covs : Reg) :
    (covs.map (shift b)).find? (keyMatch i j) = none := by
  rw [List.find?_eq_none]
  intro x hx
  rw [List.mem_map] at hx
  obtain ⟨e, _, rfl⟩ := hx
  simp [keyMatch, shift]
  omega

end QExPy

/-
  Lexical round trip (C12, used by C13): a lexically unambiguous token list is exactly what the
  tokeniser returns for its text.

  Unambiguous: symbols are non-empty and alphabetic, powers are `-?[0-9]+` or `(-?[0-9]+/[0-9]+)`,
  no symbol is directly followed by a token that begins with a letter (the two would be read as
  one symbol), the bare numerator `1` occurs only as the first token of a string or bracket
  and only before `/`, brackets are not nested and not empty.
-/
import QExPy.Lemmas.Lex
namespace QExPy.U

def DigitsOK (d : List Char) : Prop := d ≠ [] ∧ ∀ c ∈ d, isDg c = true
def IntLit (e : List Char) : Prop := DigitsOK e ∨ ∃ d, e = '-' :: d ∧ DigitsOK d
def FracLit (e : List Char) : Prop :=
  ∃ n d, IntLit n ∧ DigitsOK d ∧ e = '(' :: (n ++ '/' :: (d ++ [')']))
def PowOK (e : List Char) : Prop := IntLit e ∨ FracLit e
def SymOK (s : List Char) : Prop := s ≠ [] ∧ ∀ c ∈ s, isAl c = true

/-- the next character, if any, does not satisfy `p` -/
def Stop (p : Char → Bool) : List Char → Prop
  | [] => True
  | c :: _ => p c = false

theorem takeWhile_stop (p : Char → Bool) (a x : List Char) (ha : ∀ c ∈ a, p c = true)
    (hx : Stop p x) : (a ++ x).takeWhile p = a := by
  induction a with
  | nil =>
    cases x with
    | nil => rfl
    | cons c r => simp only [Stop] at hx; simp [hx]
  | cons c a ih =>
    have hc := ha c (by simp)
    simp only [List.cons_append, List.takeWhile, hc]
    rw [ih (fun d hd => ha d (by simp [hd]))]

theorem dropWhile_stop (p : Char → Bool) (a x : List Char) (ha : ∀ c ∈ a, p c = true)
    (hx : Stop p x) : (a ++ x).dropWhile p = x := by
  induction a with
  | nil =>
    cases x with
    | nil => rfl
    | cons c r => simp only [Stop] at hx; simp [hx]
  | cons c a ih =>
    have hc := ha c (by simp)
    simp only [List.cons_append, List.dropWhile, hc]
    rw [ih (fun d hd => ha d (by simp [hd]))]

theorem ne_of_isDg {c d : Char} (h : isDg c = true) (hd : isDg d = false) : c ≠ d := by
  intro e; subst e; rw [h] at hd; cases hd

theorem ne_of_isAl {c d : Char} (h : isAl c = true) (hd : isAl d = false) : c ≠ d := by
  intro e; subst e; rw [h] at hd; cases hd

/-! ### literals -/

theorem scanInt_digits (d x : List Char) (hd : DigitsOK d) (hx : Stop isDg x) :
    scanInt (d ++ x) = some (d, x) := by
  obtain ⟨hne, hall⟩ := hd
  cases d with
  | nil => exact absurd rfl hne
  | cons c d' =>
    have hc : isDg c = true := hall c (by simp)
    have hcm : c ≠ '-' := ne_of_isDg hc (by decide)
    unfold scanInt
    split
    · rename_i r heq
      simp only [List.cons_append, List.cons.injEq] at heq
      exact absurd heq.1 hcm
    · simp only [takeWhile_stop isDg (c :: d') x hall hx, dropWhile_stop isDg (c :: d') x hall hx]
      simp

theorem scanInt_lit (e x : List Char) (he : IntLit e) (hx : Stop isDg x) :
    scanInt (e ++ x) = some (e, x) := by
  rcases he with hd | ⟨d, rfl, hd⟩
  · exact scanInt_digits e x hd hx
  · obtain ⟨hne, hall⟩ := hd
    simp only [scanInt, List.cons_append, takeWhile_stop isDg d x hall hx,
      dropWhile_stop isDg d x hall hx]
    cases d with
    | nil => exact absurd rfl hne
    | cons c d' => simp

theorem scanInt_paren (x : List Char) : scanInt ('(' :: x) = none := by
  simp only [scanInt, List.takeWhile]
  have : isDg '(' = false := by decide
  simp [this]

theorem scanFrac_lit (e x : List Char) (h : FracLit e) : scanFrac (e ++ x) = some (e, x) := by
  obtain ⟨n, d, hn, hd, rfl⟩ := h
  have hs1 : Stop isDg ('/' :: (d ++ ')' :: x)) := by simp only [Stop]; decide
  have hs2 : Stop isDg (')' :: x) := by simp only [Stop]; decide
  have h1 := scanInt_lit n ('/' :: (d ++ ')' :: x)) hn hs1
  have h2 := takeWhile_stop isDg d (')' :: x) hd.2 hs2
  have h3 := dropWhile_stop isDg d (')' :: x) hd.2 hs2
  have e1 : ('(' :: (n ++ '/' :: (d ++ [')']))) ++ x = '(' :: (n ++ '/' :: (d ++ ')' :: x)) := by
    simp
  rw [e1]
  simp only [scanFrac, h1, h2, h3]
  obtain ⟨hne, _⟩ := hd
  cases d with
  | nil => exact absurd rfl hne
  | cons c d' => simp

theorem scanPow_lit (e x : List Char) (h : PowOK e) (hx : Stop isDg x) :
    scanPow ('^' :: (e ++ x)) = some (e, x) := by
  rcases h with hi | hf
  · simp only [scanPow, scanInt_lit e x hi hx]
  · have h2 := scanFrac_lit e x hf
    obtain ⟨n, d, _, _, rfl⟩ := hf
    simp only [scanPow]
    rw [show ('(' :: (n ++ '/' :: (d ++ [')']))) ++ x = '(' :: ((n ++ '/' :: (d ++ [')'])) ++ x) from rfl,
      scanInt_paren]
    exact h2

/-- the next character, if any, is neither a letter nor `^` -/
def StopSym : List Char → Prop
  | [] => True
  | c :: _ => isAl c = false ∧ c ≠ '^'

theorem scanPow_stop (x : List Char) (h : StopSym x) : scanPow x = none := by
  cases x with
  | nil => rfl
  | cons c r =>
    simp only [StopSym] at h
    unfold scanPow
    split
    · rename_i r' heq
      simp only [List.cons.injEq] at heq
      exact absurd heq.1 h.2
    · rfl

theorem StopSym.stopAl {x : List Char} (h : StopSym x) : Stop isAl x := by
  cases x with
  | nil => trivial
  | cons c r => exact h.1

/-! ### one token -/

theorem scanTok_alpha (b : Bool) (c : Char) (r : List Char) (hc : isAl c = true) :
    scanTok b (c :: r) =
      match scanPow ((c :: r).dropWhile isAl) with
      | some (e, r2) => some (.pw ((c :: r).takeWhile isAl) e, r2)
      | none => some (.sym ((c :: r).takeWhile isAl), (c :: r).dropWhile isAl) := by
  unfold scanTok
  split
  · rename_i heq; cases heq
  · rename_i r' heq
    simp only [List.cons.injEq] at heq
    exact absurd heq.1 (ne_of_isAl hc (by decide))
  · rename_i r' heq
    simp only [List.cons.injEq] at heq
    exact absurd heq.1 (ne_of_isAl hc (by decide))
  · rename_i r' heq
    simp only [List.cons.injEq] at heq
    exact absurd heq.1 (ne_of_isAl hc (by decide))
  · rename_i c' r' _ _ _ heq
    simp only [List.cons.injEq] at heq
    obtain ⟨rfl, rfl⟩ := heq
    simp only [hc, if_true]
    rfl

theorem scanTok_sym (b : Bool) (s x : List Char) (hs : SymOK s) (hx : StopSym x) :
    scanTok b (s ++ x) = some (.sym s, x) := by
  obtain ⟨hne, hall⟩ := hs
  cases s with
  | nil => exact absurd rfl hne
  | cons c s' =>
    have hc : isAl c = true := hall c (by simp)
    rw [List.cons_append, scanTok_alpha b c _ hc, ← List.cons_append,
      takeWhile_stop isAl _ x hall hx.stopAl, dropWhile_stop isAl _ x hall hx.stopAl,
      scanPow_stop x hx]

theorem scanTok_pw (b : Bool) (s e x : List Char) (hs : SymOK s) (he : PowOK e)
    (hx : Stop isDg x) : scanTok b (s ++ '^' :: (e ++ x)) = some (.pw s e, x) := by
  obtain ⟨hne, hall⟩ := hs
  have hstop : Stop isAl ('^' :: (e ++ x)) := by simp only [Stop]; decide
  cases s with
  | nil => exact absurd rfl hne
  | cons c s' =>
    have hc : isAl c = true := hall c (by simp)
    rw [List.cons_append, scanTok_alpha b c _ hc, ← List.cons_append,
      takeWhile_stop isAl _ _ hall hstop, dropWhile_stop isAl _ _ hall hstop,
      scanPow_lit e x he hx]

/-! ### fuel -/

theorem scan_mono (b : Bool) : ∀ (f : Nat) (cs : List Char) (rs : List Raw),
    scan b f cs = some rs → scan b (f + 1) cs = some rs := by
  intro f
  induction f with
  | zero =>
    intro cs rs h
    cases cs with
    | nil => simpa [scan] using h
    | cons c r => simp [scan] at h
  | succ f ih =>
    intro cs rs h
    cases cs with
    | nil => simpa [scan] using h
    | cons c r =>
      simp only [scan] at h ⊢
      split at h
      · cases h
      · rename_i t r' ht
        cases h2 : scan b f r' with
        | none => simp [h2] at h
        | some rs' =>
          simp only [h2, Option.map, Option.some.injEq] at h
          simp only [ih _ _ h2, Option.map, h]

theorem scan_mono_le (b : Bool) (f f' : Nat) (hle : f ≤ f') (cs : List Char) (rs : List Raw)
    (h : scan b f cs = some rs) : scan b f' cs = some rs := by
  induction hle with
  | refl => exact h
  | step _ ih => exact scan_mono b _ _ _ ih

theorem scan_cons (b : Bool) (f : Nat) (cs : List Char) (t : Raw) (r : List Char) (rs : List Raw)
    (ht : scanTok b cs = some (t, r)) (hr : scan b f r = some rs) :
    scan b (f + 1) cs = some (t :: rs) := by
  cases cs with
  | nil => simp [scanTok] at ht
  | cons c cs' => simp [scan, ht, hr]

/-! ### bracket contents -/

theorem scanBrk_close (f : Nat) (r : List Char) : scanBrk (f + 1) (')' :: r) = some ([], r) := by
  simp [scanBrk]

theorem scanBrk_frac (f : Nat) (e w : List Char) (he : FracLit e) :
    scanBrk (f + 1) ('^' :: (e ++ w)) = (scanBrk f w).map fun (c, r3) => ('^' :: e ++ c, r3) := by
  have h2 := scanFrac_lit e w he
  obtain ⟨n, d, _, _, rfl⟩ := he
  simp only [List.cons_append] at h2 ⊢
  simp only [scanBrk, h2]
  rfl

theorem scanBrk_char (f : Nat) (c : Char) (r : List Char) (h1 : c ≠ '(') (h2 : c ≠ ')')
    (h3 : c = '^' → Stop (· == '(') r) :
    scanBrk (f + 1) (c :: r) = (scanBrk f r).map fun (cs, r2) => (c :: cs, r2) := by
  conv => lhs; unfold scanBrk
  split
  · rename_i hf; omega
  · rename_i hf heq; cases heq
  · rename_i r' hf heq
    simp only [List.cons.injEq] at heq
    exact absurd heq.1 h2
  · rename_i hf heq
    simp only [List.cons.injEq] at heq
    exact absurd heq.1 h1
  · rename_i f' r' hf heq
    simp only [List.cons.injEq] at heq
    obtain ⟨rfl, rfl⟩ := heq
    have := h3 rfl
    simp [Stop] at this
  · rename_i f' c' r' _ _ _ hf heq
    simp only [List.cons.injEq] at heq
    obtain ⟨rfl, rfl⟩ := heq
    obtain rfl : f = f' := by omega
    rfl

/-- what may stand between two brackets: any characters except brackets, and `^(p/q)` powers -/
inductive BrkContent : List Char → Prop
  | nil : BrkContent []
  | plain (c : Char) (w : List Char) : c ≠ '(' → c ≠ ')' → (c = '^' → Stop (· == '(') w) →
      BrkContent w → BrkContent (c :: w)
  | frac (e w : List Char) : FracLit e → BrkContent w → BrkContent ('^' :: (e ++ w))

theorem BrkContent.stop {w : List Char} (h : BrkContent w) : Stop (· == '(') w := by
  cases h with
  | nil => trivial
  | plain c w h1 _ _ _ => simpa [Stop] using h1
  | frac e w _ _ => simp only [Stop]; decide

theorem BrkContent.append {a b : List Char} (ha : BrkContent a) (hb : BrkContent b) :
    BrkContent (a ++ b) := by
  induction ha with
  | nil => simpa using hb
  | plain c w h1 h2 h3 _ ih =>
    refine BrkContent.plain c (w ++ b) h1 h2 (fun hc => ?_) ih
    have := h3 hc
    cases w with
    | nil => simpa using hb.stop
    | cons d w' => simpa [Stop] using this
  | frac e w he _ ih =>
    have := BrkContent.frac e (w ++ b) he ih
    simpa using this

theorem BrkContent.of_plain (w : List Char) (h : ∀ c ∈ w, c ≠ '(' ∧ c ≠ ')' ∧ c ≠ '^') :
    BrkContent w := by
  induction w with
  | nil => exact .nil
  | cons c w ih =>
    obtain ⟨h1, h2, h3⟩ := h c (by simp)
    exact .plain c w h1 h2 (fun e => absurd e h3) (ih fun d hd => h d (by simp [hd]))

theorem scanBrk_content {w : List Char} (h : BrkContent w) : ∀ (f : Nat) (x : List Char),
    w.length + 1 ≤ f → scanBrk f (w ++ ')' :: x) = some (w, x) := by
  induction h with
  | nil =>
    intro f x hf
    obtain ⟨f', rfl⟩ : ∃ f', f = f' + 1 := ⟨f - 1, by simp at hf; omega⟩
    exact scanBrk_close f' x
  | plain c w h1 h2 h3 hw ih =>
    intro f x hf
    obtain ⟨f', rfl⟩ : ∃ f', f = f' + 1 := ⟨f - 1, by simp at hf; omega⟩
    have h3' : c = '^' → Stop (· == '(') (w ++ ')' :: x) := fun hc => by
      have := h3 hc
      cases w with
      | nil => simp only [List.nil_append, Stop]; decide
      | cons d w' => simpa [Stop] using this
    rw [List.cons_append, scanBrk_char f' c _ h1 h2 h3', ih f' x (by simp at hf; omega)]
    rfl
  | frac e w he hw ih =>
    intro f x hf
    obtain ⟨f', rfl⟩ : ∃ f', f = f' + 1 := ⟨f - 1, by simp at hf; omega⟩
    rw [List.cons_append, List.append_assoc, scanBrk_frac f' e _ he,
      ih f' x (by simp at hf; omega)]
    simp

/-! ### lexically unambiguous token lists -/

def FlatTok : UTok → Prop
  | .sym s => SymOK s
  | .pw s e => SymOK s ∧ PowOK e
  | .mul => True
  | .div => True
  | _ => False

/-- the token's text begins with a letter -/
def UTok.startsAl : UTok → Bool
  | .sym _ => true
  | .pw _ _ => true
  | _ => false

def UTok.isSym : UTok → Bool
  | .sym _ => true
  | _ => false

/-- no symbol is directly followed by a token that begins with a letter -/
def Sep : List UTok → Prop
  | [] => True
  | [_] => True
  | a :: b :: r => (a.isSym = true → b.startsAl = false) ∧ Sep (b :: r)

def FlatSeq (ts : List UTok) : Prop := (∀ t ∈ ts, FlatTok t) ∧ Sep ts

/-- a string or bracket content: a non-empty sequence, or "1/" followed by a sequence -/
def Body (P : List UTok → Prop) (ts : List UTok) : Prop :=
  (ts ≠ [] ∧ P ts) ∨ ∃ r, ts = .one :: .div :: r ∧ P r

def TopTok (t : UTok) : Prop := FlatTok t ∨ ∃ b, t = .par b ∧ Body FlatSeq b

def TopSeq (ts : List UTok) : Prop := (∀ t ∈ ts, TopTok t) ∧ Sep ts

/-- **lexically unambiguous** (the hypothesis of the lexical round trip) -/
def LexUnambiguous (ts : List UTok) : Prop := Body TopSeq ts

def TokB (b : Bool) (t : UTok) : Prop := if b then TopTok t else FlatTok t

theorem TokB.top {b : Bool} {t : UTok} (h : TokB b t) : TopTok t := by
  cases b
  · exact Or.inl h
  · exact h

def toRaw : UTok → Raw
  | .sym s => .sym s
  | .pw s e => .pw s e
  | .mul => .mul
  | .div => .div
  | .one => .sym ['1']
  | .par b => .brk (textL b)

/-- first character of a token's text -/
theorem text_head (t : UTok) (h : TopTok t) : ∃ c r, t.text = c :: r ∧
    (if t.startsAl then isAl c = true else (c = '*' ∨ c = '/' ∨ c = '(')) := by
  rcases h with h | ⟨b, rfl, _⟩
  · cases t with
    | sym s =>
      obtain ⟨hne, hall⟩ := h
      cases s with
      | nil => exact absurd rfl hne
      | cons c s' => exact ⟨c, s', rfl, by simpa [UTok.startsAl] using hall c (by simp)⟩
    | pw s e =>
      obtain ⟨⟨hne, hall⟩, _⟩ := h
      cases s with
      | nil => exact absurd rfl hne
      | cons c s' =>
        exact ⟨c, s' ++ '^' :: e, rfl, by simpa [UTok.startsAl] using hall c (by simp)⟩
    | mul => exact ⟨'*', [], rfl, by simp [UTok.startsAl]⟩
    | div => exact ⟨'/', [], rfl, by simp [UTok.startsAl]⟩
    | one => exact absurd h (by simp [FlatTok])
    | par b => exact absurd h (by simp [FlatTok])
  · exact ⟨'(', textL b ++ [')'], rfl, by simp [UTok.startsAl]⟩

theorem stop_dg_textL (ts : List UTok) (h : ∀ t ∈ ts, TopTok t) : Stop isDg (textL ts) := by
  cases ts with
  | nil => trivial
  | cons t r =>
    obtain ⟨c, r', hc, hcl⟩ := text_head t (h t (by simp))
    simp only [textL, hc, List.cons_append, Stop]
    split at hcl
    · cases hd : isDg c with
      | false => rfl
      | true =>
        exfalso
        revert hcl hd
        simp only [isAl, isDg, Bool.and_eq_true, Bool.or_eq_true, decide_eq_true_eq]
        intro h1 h2
        have e1 := h2.2
        rcases h1 with h1 | h1
        · have := Char.le_trans h1.1 e1; exact absurd this (by decide)
        · have := Char.le_trans h1.1 e1; exact absurd this (by decide)
    · rcases hcl with rfl | rfl | rfl <;> decide

theorem stop_sym_textL (t : UTok) (ts : List UTok) (h : ∀ x ∈ ts, TopTok x) (hs : Sep (t :: ts))
    (ht : t.isSym = true) : StopSym (textL ts) := by
  cases ts with
  | nil => trivial
  | cons b r =>
    have hb := hs.1 ht
    obtain ⟨c, r', hc, hcl⟩ := text_head b (h b (by simp))
    simp only [textL, hc, List.cons_append, StopSym]
    rw [hb] at hcl
    simp only [Bool.false_eq_true, if_false] at hcl
    rcases hcl with rfl | rfl | rfl <;> decide

/-! ### bracket contents of token lists -/

theorem brk_of_isAl (s : List Char) (h : ∀ c ∈ s, isAl c = true) : BrkContent s :=
  BrkContent.of_plain s fun c hc =>
    ⟨ne_of_isAl (h c hc) (by decide), ne_of_isAl (h c hc) (by decide), ne_of_isAl (h c hc) (by decide)⟩

theorem brk_of_isDg (s : List Char) (h : ∀ c ∈ s, isDg c = true) : BrkContent s :=
  BrkContent.of_plain s fun c hc =>
    ⟨ne_of_isDg (h c hc) (by decide), ne_of_isDg (h c hc) (by decide), ne_of_isDg (h c hc) (by decide)⟩

theorem brk_of_intLit (e : List Char) (h : IntLit e) : BrkContent e ∧ Stop (· == '(') e := by
  rcases h with ⟨hne, hall⟩ | ⟨d, rfl, hne, hall⟩
  · refine ⟨brk_of_isDg e hall, ?_⟩
    cases e with
    | nil => trivial
    | cons c e' =>
      have := ne_of_isDg (hall c (by simp)) (show isDg '(' = false by decide)
      simpa [Stop] using this
  · refine ⟨BrkContent.plain '-' d (by decide) (by decide) (fun h => absurd h (by decide))
      (brk_of_isDg d hall), ?_⟩
    simp only [Stop]; decide

theorem brk_tok (t : UTok) (h : FlatTok t) : BrkContent t.text := by
  cases t with
  | sym s => exact brk_of_isAl s h.2
  | pw s e =>
    obtain ⟨hs, he⟩ := h
    refine BrkContent.append (brk_of_isAl s hs.2) ?_
    rcases he with hi | hf
    · obtain ⟨h1, h2⟩ := brk_of_intLit e hi
      exact BrkContent.plain '^' e (by decide) (by decide) (fun _ => h2) h1
    · have := BrkContent.frac e [] hf .nil
      simpa using this
  | mul => exact BrkContent.of_plain _ (by simp; decide)
  | div => exact BrkContent.of_plain _ (by simp; decide)
  | one => exact absurd h (by simp [FlatTok])
  | par b => exact absurd h (by simp [FlatTok])

theorem brk_list (ts : List UTok) (h : ∀ t ∈ ts, FlatTok t) : BrkContent (textL ts) := by
  induction ts with
  | nil => exact .nil
  | cons t r ih =>
    exact BrkContent.append (brk_tok t (h t (by simp))) (ih fun x hx => h x (by simp [hx]))

theorem brk_body (b : List UTok) (h : Body FlatSeq b) : BrkContent (textL b) := by
  rcases h with ⟨_, h, _⟩ | ⟨r, rfl, h, _⟩
  · exact brk_list b h
  · have := brk_list r h
    exact BrkContent.plain '1' _ (by decide) (by decide) (fun e => absurd e (by decide))
      (BrkContent.plain '/' _ (by decide) (by decide) (fun e => absurd e (by decide)) this)

/-! ### scanning the text of a token list -/

theorem scanTok_tok (b : Bool) (t : UTok) (x : List Char) (ht : TokB b t) (hx : Stop isDg x)
    (hs : t.isSym = true → StopSym x) : scanTok b (t.text ++ x) = some (toRaw t, x) := by
  cases t with
  | sym s =>
    have h : SymOK s := by cases b <;> first | exact ht | (rcases ht with h | ⟨_, h, _⟩; exact h; cases h)
    exact scanTok_sym b s x h (hs rfl)
  | pw s e =>
    have h : SymOK s ∧ PowOK e := by
      cases b <;> first | exact ht | (rcases ht with h | ⟨_, h, _⟩; exact h; cases h)
    simp only [UTok.text, List.append_assoc, List.cons_append]
    exact scanTok_pw b s e x h.1 h.2 hx
  | mul => simp [UTok.text, scanTok, toRaw]
  | div => simp [UTok.text, scanTok, toRaw]
  | one =>
    exfalso
    cases b
    · exact ht
    · rcases ht with h | ⟨_, h, _⟩
      · exact h
      · cases h
  | par body =>
    cases b with
    | false => exact absurd ht (by simp [TokB, FlatTok])
    | true =>
      rcases ht with h | ⟨b', h, hb⟩
      · exact absurd h (by simp [FlatTok])
      · cases h
        have hc := scanBrk_content (brk_body body hb) ((textL body ++ ')' :: x).length + 1) x
          (by simp)
        simp only [UTok.text, List.cons_append, List.append_assoc, List.nil_append, scanTok,
          if_true, hc, toRaw]
        rfl

theorem scan_seq (b : Bool) (ts : List UTok) (h : ∀ t ∈ ts, TokB b t) (hs : Sep ts) :
    scan b ts.length (textL ts) = some (ts.map toRaw) := by
  induction ts with
  | nil => simp [textL, scan]
  | cons t r ih =>
    have hr : ∀ x ∈ r, TokB b x := fun x hx => h x (by simp [hx])
    have hsr : Sep r := by
      cases r with
      | nil => trivial
      | cons a r' => exact hs.2
    have htop : ∀ x ∈ r, TopTok x := fun x hx => (hr x hx).top
    exact scan_cons b r.length _ (toRaw t) (textL r) _
      (scanTok_tok b t (textL r) (h t (by simp)) (stop_dg_textL r htop)
        (fun hsym => stop_sym_textL t r htop hs hsym))
      (ih hr hsr)

theorem length_le_text (ts : List UTok) (h : ∀ t ∈ ts, TopTok t) :
    ts.length ≤ (textL ts).length := by
  induction ts with
  | nil => simp
  | cons t r ih =>
    obtain ⟨c, r', hc, _⟩ := text_head t (h t (by simp))
    have := ih fun x hx => h x (by simp [hx])
    simp only [textL, hc, List.length_cons, List.length_append]
    omega

theorem scan_seq_fuel (b : Bool) (ts : List UTok) (h : ∀ t ∈ ts, TokB b t) (hs : Sep ts) :
    scan b ((textL ts).length + 1) (textL ts) = some (ts.map toRaw) :=
  scan_mono_le b _ _ (by have := length_le_text ts fun t ht => (h t ht).top; omega) _ _
    (scan_seq b ts h hs)

theorem stripOne_other (c : Char) (r : List Char) (hc : c ≠ '1') :
    stripOne (c :: r) = (false, c :: r) := by
  unfold stripOne
  split
  · rename_i r' heq
    simp only [List.cons.injEq] at heq
    exact absurd heq.1 hc
  · rfl

theorem head_ne_one (t : UTok) (h : TopTok t) : ∃ c r, t.text = c :: r ∧ c ≠ '1' := by
  obtain ⟨c, r, hc, hcl⟩ := text_head t h
  refine ⟨c, r, hc, ?_⟩
  split at hcl
  · exact ne_of_isAl hcl (by decide)
  · rcases hcl with rfl | rfl | rfl <;> decide

/-- the tokeniser core returns a well-formed token list for its text -/
theorem rawCore_roundtrip (b : Bool) (f : Raw → Option UTok) (P : List UTok → Prop)
    (hP : ∀ ts, P ts → (∀ t ∈ ts, TokB b t) ∧ Sep ts)
    (hf : ∀ t, TokB b t → f (toRaw t) = some t) (ts : List UTok) (h : Body P ts) :
    rawCore b f (textL ts) = some ts := by
  have hmap : ∀ l : List UTok, (∀ t ∈ l, TokB b t) → mapOpt f (l.map toRaw) = some l := by
    intro l hl
    induction l with
    | nil => rfl
    | cons t r ih =>
      simp [mapOpt, hf t (hl t (by simp)), ih fun x hx => hl x (by simp [hx])]
  rcases h with ⟨hne, hp⟩ | ⟨r, rfl, hp⟩
  · obtain ⟨htok, hsep⟩ := hP ts hp
    cases ts with
    | nil => exact absurd rfl hne
    | cons t r =>
      obtain ⟨c, r', hc, hc1⟩ := head_ne_one t (htok t (by simp)).top
      have hst : stripOne (textL (t :: r)) = (false, textL (t :: r)) := by
        simp only [textL, hc, List.cons_append]
        exact stripOne_other c _ hc1
      unfold rawCore
      rw [hst]
      simp only [scan_seq_fuel b (t :: r) htok hsep, hmap _ htok]
      simp
  · obtain ⟨htok, hsep⟩ := hP r hp
    have htok' : ∀ t ∈ UTok.div :: r, TokB b t := by
      intro t ht
      rcases List.mem_cons.mp ht with rfl | ht
      · cases b
        · exact (trivial : FlatTok .div)
        · exact Or.inl (trivial : FlatTok .div)
      · exact htok t ht
    have hsep' : Sep (UTok.div :: r) := by
      cases r with
      | nil => trivial
      | cons a r' => exact ⟨fun h => by simp [UTok.isSym] at h, hsep⟩
    have hst : stripOne (textL (UTok.one :: UTok.div :: r)) = (true, textL (UTok.div :: r)) := by
      simp [textL, UTok.text, stripOne]
    unfold rawCore
    rw [hst]
    simp only [scan_seq_fuel b (UTok.div :: r) htok' hsep', hmap _ htok']
    simp

theorem flatConv_toRaw (t : UTok) (h : TokB false t) : flatConv (toRaw t) = some t := by
  cases t <;> first | rfl | exact absurd h (by simp [TokB, FlatTok])

/-- round trip inside a bracket -/
theorem rawFlat_roundtrip (b : List UTok) (h : Body FlatSeq b) (cs : List Char)
    (hcs : replaceDot cs = textL b) : rawFlat cs = some b := by
  rw [rawFlat_eq, hcs]
  exact rawCore_roundtrip false flatConv FlatSeq (fun ts h => h) flatConv_toRaw b h

/-! ### no dot sign in the text of a well-formed token list -/

theorem NoDot.nil : NoDot [] := fun _ h => by cases h

theorem NoDot.cons {c : Char} {r : List Char} (hc : c ≠ '⋅') (hr : NoDot r) : NoDot (c :: r) := by
  intro x hx
  rcases List.mem_cons.mp hx with rfl | hx
  · exact hc
  · exact hr x hx

theorem NoDot.append {a b : List Char} (ha : NoDot a) (hb : NoDot b) : NoDot (a ++ b) := by
  intro x hx
  rcases List.mem_append.mp hx with hx | hx
  · exact ha x hx
  · exact hb x hx

theorem noDot_isAl (s : List Char) (h : ∀ c ∈ s, isAl c = true) : NoDot s :=
  fun c hc => ne_of_isAl (h c hc) (by decide)

theorem noDot_isDg (s : List Char) (h : ∀ c ∈ s, isDg c = true) : NoDot s :=
  fun c hc => ne_of_isDg (h c hc) (by decide)

theorem noDot_intLit (e : List Char) (h : IntLit e) : NoDot e := by
  rcases h with ⟨_, hall⟩ | ⟨d, rfl, _, hall⟩
  · exact noDot_isDg e hall
  · exact NoDot.cons (by decide) (noDot_isDg d hall)

theorem noDot_powOK (e : List Char) (h : PowOK e) : NoDot e := by
  rcases h with h | ⟨n, d, hn, hd, rfl⟩
  · exact noDot_intLit e h
  · exact NoDot.cons (by decide) (NoDot.append (noDot_intLit n hn)
      (NoDot.cons (by decide) (NoDot.append (noDot_isDg d hd.2) (NoDot.cons (by decide) .nil))))

theorem noDot_flatTok (t : UTok) (h : FlatTok t) : NoDot t.text := by
  cases t with
  | sym s => exact noDot_isAl s h.2
  | pw s e => exact NoDot.append (noDot_isAl s h.1.2) (NoDot.cons (by decide) (noDot_powOK e h.2))
  | mul => exact NoDot.cons (by decide) .nil
  | div => exact NoDot.cons (by decide) .nil
  | one => exact absurd h (by simp [FlatTok])
  | par b => exact absurd h (by simp [FlatTok])

theorem noDot_body (P : List UTok → Prop) (hP : ∀ ts, P ts → ∀ t ∈ ts, NoDot t.text)
    (b : List UTok) (h : Body P b) : NoDot (textL b) := by
  have hl : ∀ ts : List UTok, (∀ t ∈ ts, NoDot t.text) → NoDot (textL ts) := by
    intro ts hts
    induction ts with
    | nil => exact .nil
    | cons t r ih => exact NoDot.append (hts t (by simp)) (ih fun x hx => hts x (by simp [hx]))
  rcases h with ⟨_, h⟩ | ⟨r, rfl, h⟩
  · exact hl b (hP b h)
  · exact NoDot.cons (by decide) (NoDot.cons (by decide) (hl r (hP r h)))

theorem noDot_flatBody (b : List UTok) (h : Body FlatSeq b) : NoDot (textL b) :=
  noDot_body FlatSeq (fun _ hts t ht => noDot_flatTok t (hts.1 t ht)) b h

theorem noDot_topTok (t : UTok) (h : TopTok t) : NoDot t.text := by
  rcases h with h | ⟨b, rfl, hb⟩
  · exact noDot_flatTok t h
  · exact NoDot.cons (by decide) (NoDot.append (noDot_flatBody b hb) (NoDot.cons (by decide) .nil))

theorem noDot_lexUnambiguous (ts : List UTok) (h : LexUnambiguous ts) : NoDot (textL ts) :=
  noDot_body TopSeq (fun _ hts t ht => noDot_topTok t (hts.1 t ht)) ts h

theorem topConv_toRaw (t : UTok) (h : TokB true t) : topConv (toRaw t) = some t := by
  rcases h with h | ⟨b, rfl, hb⟩
  · cases t <;> first | rfl | exact absurd h (by simp [FlatTok])
  · have hnd : replaceDot (textL b) = textL b := replaceDot_id _ (noDot_flatBody b hb)
    simp [toRaw, topConv, rawFlat_roundtrip b hb (textL b) hnd]

/-- **C12, lexical round trip.**  A lexically unambiguous token list is exactly what the
    tokeniser returns for any string that is its text up to writing `*` as the dot sign. -/
theorem rawTop_roundtrip (ts : List UTok) (h : LexUnambiguous ts) (cs : List Char)
    (hcs : replaceDot cs = textL ts) : rawTop cs = some ts := by
  rw [rawTop_eq, hcs]
  exact rawCore_roundtrip true topConv TopSeq (fun ts h => h) topConv_toRaw ts h

theorem rawTop_roundtrip_text (ts : List UTok) (h : LexUnambiguous ts) :
    rawTop (textL ts) = some ts :=
  rawTop_roundtrip ts h _ (replaceDot_id _ (noDot_lexUnambiguous ts h))

end QExPy.U

/-
  Helper lemmas about the MeasurementArray edit model (QExPy/Model/ArrayEdit.lean), used by
  the C17 property theorems (QExPy/Props/C17.lean).

  * core list facts that are not in core Lean under a usable name (`map_eraseIdx'`,
    `map_modify'`, `insertIdx_eq_take_drop'`);
  * what `relabel` / `rename` / `mk` do to the pairs, names, units and length;
  * the range of `pos`;
  * `Num.sum` over `ℝ` is `List.sum`.
-/
import QExPy.Model.ArrayEdit
import QExPy.Real

namespace QExPy.ArrayEdit
open QExPy

/-! ### plain list facts -/

theorem map_eraseIdx' {β γ : Type} (f : β → γ) (l : List β) (k : Nat) :
    (l.eraseIdx k).map f = (l.map f).eraseIdx k := by
  induction l generalizing k with
  | nil => simp
  | cons a l ih => cases k <;> simp [ih]

theorem map_modify' {β γ : Type} (f : β → γ) (g : β → β) (g' : γ → γ)
    (hg : ∀ x, f (g x) = g' (f x)) (l : List β) (k : Nat) :
    (l.modify k g).map f = (l.map f).modify k g' := by
  induction l generalizing k with
  | nil => simp
  | cons a l ih => cases k <;> simp [ih, hg]

theorem modify_eq_set' {β : Type} (g : β → β) (l : List β) (k : Nat) (h : k < l.length) :
    l.modify k g = l.set k (g l[k]) := by
  apply List.ext_getElem
  · simp
  · intro i h1 h2
    simp [List.getElem_modify, List.getElem_set]
    split
    · subst k; rfl
    · rfl

theorem insertIdx_eq_take_drop' {β : Type} (l : List β) (k : Nat) (x : β) (h : k ≤ l.length) :
    l.insertIdx k x = l.take k ++ [x] ++ l.drop k := by
  induction l generalizing k with
  | nil =>
    have : k = 0 := by simpa using h
    subst this; simp
  | cons a l ih =>
    cases k with
    | zero => simp
    | succ k => simp [ih k (by simpa using h)]

/-! ### `relabel`, `rename`, `mk` -/

variable {α : Type}

@[simp] theorem length_relabel (name unit : String) (ps : List (α × α)) :
    (relabel name unit ps).length = ps.length := by
  simp [relabel]

@[simp] theorem length_rename (name : String) (es : List (Elem α)) :
    (rename name es).length = es.length := by
  simp [rename]

theorem getElem_relabel (name unit : String) (ps : List (α × α)) (i : Nat)
    (h : i < (relabel name unit ps).length) :
    (relabel name unit ps)[i]
      = ⟨(ps[i]'(by simpa using h)).1, (ps[i]'(by simpa using h)).2, nameAt name i, unit⟩ := by
  simp [relabel]

theorem getElem_rename (name : String) (es : List (Elem α)) (i : Nat)
    (h : i < (rename name es).length) :
    (rename name es)[i] = { es[i]'(by simpa using h) with name := nameAt name i } := by
  simp [rename]

/-- the key fact for append / insert: relabelling does not touch the (value, uncertainty) pairs -/
theorem map_pair_relabel (name unit : String) (ps : List (α × α)) :
    (relabel name unit ps).map (fun x => (x.v, x.e)) = ps := by
  apply List.ext_getElem
  · simp
  · intro i h1 h2
    simp [getElem_relabel]

/-- the key fact for delete: renaming does not touch the pairs -/
theorem map_pair_rename (name : String) (es : List (Elem α)) :
    (rename name es).map (fun x => (x.v, x.e)) = es.map (fun x => (x.v, x.e)) := by
  apply List.ext_getElem
  · simp
  · intro i h1 h2
    simp [getElem_rename]

theorem length_pairs (a : Arr α) : (pairs a).length = a.elems.length := by
  simp [pairs]

theorem getElem_pairs (a : Arr α) (i : Nat) (h : i < (pairs a).length) :
    (pairs a)[i] = ((a.elems[i]'(by simpa [pairs] using h)).v,
                    (a.elems[i]'(by simpa [pairs] using h)).e) := by
  simp [pairs]

theorem pairs_mk (name unit : String) (ps : List (α × α)) : pairs (mk name unit ps) = ps := by
  apply List.ext_getElem
  · simp [pairs, mk]
  · intro i h1 h2
    simp [pairs, mk]

theorem length_mk (name unit : String) (ps : List (α × α)) :
    (mk name unit ps).elems.length = ps.length := by
  simp [mk]

theorem getElem_mk (name unit : String) (ps : List (α × α)) (i : Nat)
    (h : i < (mk name unit ps).elems.length) :
    (mk name unit ps).elems[i]
      = ⟨(ps[i]'(by simpa [mk] using h)).1, (ps[i]'(by simpa [mk] using h)).2,
          if name = "" then "" else nameAt name i, unit⟩ := by
  simp [mk]

/-! ### `pos` -/

theorem pos_le {n hi k : Nat} {i : Int} (h : pos n i hi = some k) (hhi : hi ≤ n) : k ≤ n := by
  unfold pos at h
  split at h
  · split at h
    · cases h; omega
    · cases h
  · split at h
    · cases h; omega
    · cases h

theorem pos_lt {n k : Nat} {i : Int} (h : pos n i (n - 1) = some k) (hn : n ≠ 0) : k < n := by
  unfold pos at h
  split at h
  · split at h
    · cases h; omega
    · cases h
  · split at h
    · cases h; omega
    · cases h

/-! ### the shape of an accepted edit -/

/-- an accepted edit keeps name and unit, and its elements are either a relabelled list of pairs
    (append, insert), a renamed erasure (delete), a value-only modification (number assignment)
    or a replacement by an element carrying the array's unit and positional name -/
theorem edit_some_cases [Num α] {a a' : Arr α} {e : Edit α} (h : edit a e = some a') :
    a'.name = a.name ∧ a'.unit = a.unit ∧
    ((∃ ps, a'.elems = relabel a.name a.unit ps) ∨
     (∃ k, a'.elems = rename a.name (a.elems.eraseIdx k)) ∨
     (∃ k c, k < a.elems.length ∧
        a'.elems = a.elems.modify k (fun el => { el with v := c })) ∨
     (∃ (k : Nat) (p : α × α), k < a.elems.length ∧
        a'.elems = a.elems.set k
          ⟨p.1, p.2, if a.name = "" then "" else nameAt a.name k, a.unit⟩)) := by
  cases e with
  | append x =>
    simp only [edit, append] at h
    split at h
    · cases h
    · cases h; exact ⟨rfl, rfl, .inl ⟨_, rfl⟩⟩
  | insert i x =>
    simp only [edit, insert] at h
    split at h
    · cases h
    · split at h
      · cases h
      · cases h; exact ⟨rfl, rfl, .inl ⟨_, rfl⟩⟩
  | delete i =>
    simp only [edit, delete] at h
    split at h
    · cases h
    · split at h
      · cases h
      · cases h; exact ⟨rfl, rfl, .inr (.inl ⟨_, rfl⟩)⟩
  | setItem i x =>
    simp only [edit, setItem] at h
    split at h
    · cases h
    · rename_i h0
      split at h
      · cases h
      · rename_i k hk
        have hlt := pos_lt hk h0
        split at h
        · cases h; exact ⟨rfl, rfl, .inr (.inr (.inl ⟨k, _, hlt, rfl⟩))⟩
        · split at h
          · cases h
          · cases h; exact ⟨rfl, rfl, .inr (.inr (.inr ⟨k, _, hlt, rfl⟩))⟩

/-! ### coercion of operands -/

theorem coerceItems_eq_mapM [Num α] (xs : List (Item α)) : coerceItems xs = xs.mapM coerceItem := by
  induction xs with
  | nil => rfl
  | cons x xs ih =>
    simp only [coerceItems, List.mapM_cons, ← ih]
    cases coerceItem x <;> cases coerceItems xs <;> rfl

/-! ### sums over `ℝ` -/

theorem numSum_eq (l : List ℝ) : Num.sum l = l.sum := by
  unfold Num.sum
  have : ∀ (a : ℝ) (l : List ℝ), List.foldl Num.add a l = a + l.sum := by
    intro a l
    induction l generalizing a with
    | nil => simp
    | cons x xs ih => simp [List.foldl, ih, add_assoc]
  simpa using this 0 l

end QExPy.ArrayEdit

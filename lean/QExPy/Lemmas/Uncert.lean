/-
  Bridging lemmas for C14: `QExPy/Model/Uncert.lean` calls the definitions regenerated from the
  source (`QExPy/Generated/Uncert.lean`, translator section `uncert`).  Here, at `ℝ`, the generated
  sign tests are shown to be `x < 0`, the stored / new uncertainties to be `e` resp. `|value|·r`,
  and every array `_get_error_array_helper` lets through to be non-negative.  These are the only
  places where the `Gen.*` names of the section are unfolded.
-/
import QExPy.Real
import QExPy.Model.Uncert
import Mathlib.Tactic.Linarith
import Mathlib.Tactic.Positivity

namespace QExPy.Uncert
open QExPy

theorem neg?_iff (x : ℝ) : neg? x = true ↔ x < 0 := by
  simp [neg?, Uncert.zero]

/-- every generated sign test is `· < 0` (in whatever spelling) -/
theorem signTests (x : ℝ) :
    Gen.ctorNegBad x = neg? x ∧ Gen.setErrBad x = neg? x ∧ Gen.setRelBad x = neg? x ∧
    Gen.dSetErrBad x = neg? x ∧ Gen.dSetRelBad x = neg? x := by
  refine ⟨?_, ?_, ?_, ?_, ?_⟩ <;>
    (rw [Bool.eq_iff_iff, neg?_iff]
     simp only [Gen.ctorNegBad, Gen.setErrBad, Gen.setRelBad, Gen.dSetErrBad, Gen.dSetRelBad, num_lt,
       num_le, num_neg, num_abs, num_ofNat, Nat.cast_zero, Bool.or_eq_true, Bool.and_eq_true,
       Bool.not_eq_true', Bool.not_eq_eq_eq_not, Bool.not_true, decide_eq_true_eq,
       decide_eq_false_iff_not] <;>
     first | exact Iff.rfl | grind)

theorem ctorError_eq (e : ℝ) : Gen.ctorError e = e := by
  simp only [Gen.ctorError, num_isZero, num_ofNat, Nat.cast_zero, decide_eq_true_eq] <;>
  first | rfl | (split_ifs <;> first | rfl | simp_all | linarith)

theorem setErrNew_eq (v e : ℝ) : Gen.setErrNew v e = e ∧ Gen.dSetErrNew v e = e := by
  constructor <;> simp [Gen.setErrNew, Gen.dSetErrNew]

theorem setRelNew_eq (v r : ℝ) :
    Gen.setRelNew v r = Num.mul (Num.abs v) r ∧ Gen.dSetRelNew v r = Num.mul (Num.abs v) r := by
  constructor <;> simp only [Gen.setRelNew, Gen.dSetRelNew, num_mul, num_abs] <;> first | rfl | ring

/-- the final sign test of the array helper lets through non-negative arrays only -/
theorem errArrayBad_false {l : List ℝ} (h : Gen.errArrayBad l = false) : ∀ e ∈ l, 0 ≤ e := by
  intro e he
  simp only [Gen.errArrayBad, List.any_eq_false, List.all_eq_true, num_lt, num_le, num_ofNat,
    Nat.cast_zero, decide_eq_true_eq, Bool.not_eq_true', Bool.not_eq_eq_eq_not, Bool.not_true,
    Bool.not_false, decide_eq_false_iff_not] at h
  have := h e he
  first | exact not_lt.mp this | exact this | linarith | grind

theorem errArrayBad_true {l : List ℝ} {e : ℝ} (he : e ∈ l) (hn : e < 0) :
    Gen.errArrayBad l = true := by
  by_contra hc
  have := errArrayBad_false (by simpa using hc) e he
  linarith

theorem errFinish_nonneg {l es : List ℝ} (h : errFinish l = some es) : ∀ e ∈ es, 0 ≤ e := by
  unfold errFinish at h
  split at h
  · cases h
  · rename_i hb
    simp only [Option.some.injEq] at h
    subst h
    exact errArrayBad_false (by simpa using hb)

/-- `_get_error_array_helper` only ever returns non-negative uncertainties -/
theorem errArray_nonneg' (xs : List ℝ) (spec : ErrSpec ℝ) (es : List ℝ)
    (h : errArray xs spec = some es) : ∀ e ∈ es, 0 ≤ e := by
  cases spec <;> simp only [errArray] at h
  · exact errFinish_nonneg h
  · exact errFinish_nonneg h
  · split at h
    · cases h
    · exact errFinish_nonneg h
  · exact errFinish_nonneg h
  · split at h
    · cases h
    · exact errFinish_nonneg h

/-- the arrays of the `common` and `each` branches -/
theorem errCommon_mem {xs : List ℝ} (hx : xs ≠ []) (e : ℝ) : e ∈ Gen.errCommon xs e := by
  have : 0 < xs.length := List.length_pos_of_ne_nil hx
  first
    | (simp only [Gen.errCommon, List.mem_replicate]; exact ⟨by omega, trivial⟩)
    | (simp only [Gen.errCommon, List.mem_map]
       obtain ⟨x, hx'⟩ := List.exists_mem_of_ne_nil xs hx; exact ⟨x, hx', rfl⟩)
    | simp [Gen.errCommon, hx]

theorem errEach_eq (xs es : List ℝ) : Gen.errEach xs es = es := by
  simp [Gen.errEach]

/-! the model functions that contain generated pieces, in the vocabulary of the theorems -/

theorem mkMeasurement_unfold (h : Heap ℝ) (v : ℝ) (e : Option ℝ) :
    mkMeasurement h v e =
      (match e with
       | none => (h ++ [single v zero], .ok)
       | some e => if neg? e then (h, .reject) else (h ++ [single v e], .ok)) := by
  unfold mkMeasurement
  cases e with
  | none => rfl
  | some e => simp only [(signTests e).1, ctorError_eq]

theorem setError_unfold (h : Heap ℝ) (i : Nat) (e : ℝ) :
    setError h i e =
      (match h[i]? with
       | none => (h, .reject)
       | some q =>
         if neg? e then (h, .reject)
         else
           match q.kind with
           | .derived => (h.set i { q with kind := .single, error := e }, .ok)
           | _ => (h.set i { q with error := e }, .ok)) := by
  unfold setError
  cases h[i]? with
  | none => rfl
  | some q =>
    simp only [(signTests e).2.1, (signTests e).2.2.2.1, (setErrNew_eq q.value e).1,
      (setErrNew_eq q.value e).2]
    cases q.kind <;> rfl

theorem setRelError_unfold (h : Heap ℝ) (i : Nat) (r : ℝ) :
    setRelError h i r =
      (match h[i]? with
       | none => (h, .reject)
       | some q =>
         if neg? r then (h, .reject)
         else
           let e := Num.mul (Num.abs q.value) r
           match q.kind with
           | .derived => (h.set i { q with kind := .single, error := e }, .ok)
           | _ => (h.set i { q with error := e }, .ok)) := by
  unfold setRelError
  cases h[i]? with
  | none => rfl
  | some q =>
    simp only [(signTests r).2.2.1, (signTests r).2.2.2.2, (setRelNew_eq q.value r).1,
      (setRelNew_eq q.value r).2]
    cases q.kind <;> rfl

theorem operandExpr_pair (h : Heap ℝ) (slot : Nat) (v e : ℝ) :
    operandExpr h slot (.pair v e)
      = if neg? e then none else some (.var slot, h ++ [single v e]) := by
  simp only [operandExpr, (signTests e).1, ctorError_eq]

end QExPy.Uncert

/-
  String-level soundness and completeness of `parse` for the syntax trees of the grammar
  (assembled from the token-level equivalence, the lexical lemmas and the reference parser's
  soundness / completeness); used by C12 and C13.
-/
import QExPy.Lemmas.ParseAst
import QExPy.Lemmas.LexRound
namespace QExPy.U

theorem parse_sound (cs : List Char) (u : Units) (h : parse cs = some u) :
    ∃ a : Expr, textL a.toks = replaceDot cs ∧ rawTop cs = some a.toks ∧ a.ok ∧ WF u ∧
      ∀ s, expOf u s = a.den s := by
  rw [parse_eq_refParse] at h
  unfold refParse at h
  cases h1 : rawTop cs with
  | none => simp [h1] at h
  | some ts =>
    cases h2 : refExpr ts with
    | none => simp [h1, h2] at h
    | some t =>
      simp only [h1, h2, Option.bind_eq_bind, Option.bind_some] at h
      obtain ⟨a, ha1, ha2⟩ := refExpr_sound ts t h2
      subst ha1 ha2
      have hok := Expr.ok_of_eval a u h
      obtain ⟨u', hu', hw, hd⟩ := Expr.eval_ok a hok
      rw [h] at hu'
      cases hu'
      exact ⟨a, rawTop_text cs _ h1, rfl, hok, hw, hd⟩

theorem parse_complete (a : Expr) (hok : a.ok) (hlex : LexUnambiguous a.toks) (cs : List Char)
    (hcs : replaceDot cs = textL a.toks) :
    ∃ u, parse cs = some u ∧ WF u ∧ ∀ s, expOf u s = a.den s := by
  obtain ⟨u, hu, hw, hd⟩ := Expr.eval_ok a hok
  refine ⟨u, ?_, hw, hd⟩
  rw [parse_eq_refParse]
  unfold refParse
  simp only [rawTop_roundtrip a.toks hlex cs hcs, refExpr_toks, Option.bind_eq_bind,
    Option.bind_some, hu]

end QExPy.U

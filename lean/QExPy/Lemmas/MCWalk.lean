/-
  Bridging lemmas for C16: the formulas of `find_mode_and_uncertainty` and the two tests of
  `MonteCarloSettings` regenerated from the source (`QExPy/Generated/MCWalk.lean`), at `ℝ`, in the
  vocabulary of the C16 theorems.  The only place where these `Gen.*` names are unfolded.
-/
import QExPy.Real
import QExPy.Model.ModeWalk
import Mathlib.Tactic.Ring
import Mathlib.Tactic.Linarith

namespace QExPy

theorem modeNotEnough_eq (count c tot : ℝ) :
    Gen.modeNotEnough count c tot = decide (count < c * tot) := by
  rw [Bool.eq_iff_iff]
  simp only [Gen.modeNotEnough, num_lt, num_le, num_mul, Bool.not_eq_true', Bool.not_eq_eq_eq_not,
    Bool.not_true, decide_eq_true_eq, decide_eq_false_iff_not] <;>
  first | exact Iff.rfl | grind

theorem modeValue_eq (lo hi : ℝ) : Gen.modeValue lo hi = (lo + hi) / 2 := by
  simp only [Gen.modeValue, num_add, num_sub, num_mul, num_div, num_ofNat, Nat.cast_ofNat] <;>
  first | rfl | ring

theorem modeError_eq (k first last len : ℝ) :
    Gen.modeError k first last len = k * ((last - first) / len) := by
  simp only [Gen.modeError, num_add, num_sub, num_mul, num_div, num_ofNat] <;>
  first | rfl | ring

theorem mcCustomBad_eq (e : ℝ) : Gen.mcCustomBad e = decide (e < 0) := by
  rw [Bool.eq_iff_iff]
  simp only [Gen.mcCustomBad, num_lt, num_le, num_ofNat, Nat.cast_zero, Bool.not_eq_true',
    Bool.not_eq_eq_eq_not, Bool.not_true, decide_eq_true_eq, decide_eq_false_iff_not] <;>
  first | exact Iff.rfl | grind

theorem mcConfBad_iff (c : ℝ) : Gen.mcConfBad c = true ↔ (1 < c ∨ c < 0) := by
  simp only [Gen.mcConfBad, num_lt, num_le, num_abs, num_ofNat, Nat.cast_zero, Nat.cast_one,
    Bool.or_eq_true, Bool.and_eq_true, Bool.not_eq_true', Bool.not_eq_eq_eq_not, Bool.not_true,
    decide_eq_true_eq, decide_eq_false_iff_not] <;>
  first | exact Iff.rfl | grind

end QExPy

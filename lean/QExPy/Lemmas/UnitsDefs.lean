/-
  Helpers for the whole-tree theorem of C18 (`C18_dim_preserved`): which symbols the operators
  can mention, the dimension of units whose non-zero part is in base symbols, `operate` and
  `guarded` with definitions active.
-/
import QExPy.Lemmas.Units
import Mathlib.Tactic.Ring
namespace QExPy.U

/-- the unit mentions no defined name -/
def BaseU (defs : Defs) (u : Units) : Prop := ∀ k ∈ u.map Prod.fst, lookupDef defs k = none

theorem keys_filterZero_subset (u : Units) : ∀ k ∈ (filterZero u).map Prod.fst, k ∈ u.map Prod.fst := by
  intro k hk
  exact (List.filter_sublist.map Prod.fst).subset hk

theorem keys_mul_subset (u v : Units) :
    ∀ k ∈ (mul u v).map Prod.fst, k ∈ u.map Prod.fst ∨ k ∈ v.map Prod.fst := by
  intro k hk
  rcases keys_merge_subset _ _ _ k hk with h | h
  · rcases keys_merge_subset _ _ _ k h with h | h
    · simp at h
    · exact Or.inl h
  · exact Or.inr h

theorem keys_div_subset (u v : Units) :
    ∀ k ∈ (div u v).map Prod.fst, k ∈ u.map Prod.fst ∨ k ∈ v.map Prod.fst := by
  intro k hk
  rcases keys_merge_subset _ _ _ k hk with h | h
  · rcases keys_merge_subset _ _ _ k h with h | h
    · simp at h
    · exact Or.inl h
  · exact Or.inr h

theorem BaseU.filterZero {defs : Defs} {u : Units} (h : BaseU defs u) : BaseU defs (filterZero u) :=
  fun k hk => h k (keys_filterZero_subset u k hk)

theorem BaseU.mul {defs : Defs} {u v : Units} (hu : BaseU defs u) (hv : BaseU defs v) :
    BaseU defs (mul u v) := fun k hk => by
  rcases keys_mul_subset u v k hk with h | h
  · exact hu k h
  · exact hv k h

theorem BaseU.div {defs : Defs} {u v : Units} (hu : BaseU defs u) (hv : BaseU defs v) :
    BaseU defs (div u v) := fun k hk => by
  rcases keys_div_subset u v k hk with h | h
  · exact hu k h
  · exact hv k h

theorem BaseU.sqrtU {defs : Defs} {u : Units} (hu : BaseU defs u) : BaseU defs (sqrtU u) := by
  intro k hk
  have : (U.sqrtU u).map Prod.fst = u.map Prod.fst := keys_map u (fun e => e / 2)
  rw [this] at hk
  exact hu k hk

/-- a key-unique unit whose entries with non-zero exponent are base symbols is its own
    dimension (entries with exponent 0 may be anything) -/
theorem dimU_support (rdefs : Defs) (h : OrderedR rdefs) (u : Units) (hu : WF u)
    (hb : ∀ p ∈ u, p.2 ≠ 0 → lookupDef rdefs p.1 = none) (t : Sym) :
    dimU rdefs u t = expOf u t := by
  obtain ⟨a, _⟩ := unfolds_dimSym rdefs h
  induction u with
  | nil => rfl
  | cons p r ih =>
    obtain ⟨k, e⟩ := p
    have hr := WF_tail hu
    have ihr := ih hr (fun p hp => hb p (List.mem_cons_of_mem _ hp))
    have hnot : k ∉ r.map Prod.fst := by
      simp only [WF, List.map_cons, List.nodup_cons] at hu
      exact hu.1
    show e * dimSym rdefs k t + dimU rdefs r t = _
    rw [ihr, expOf_cons]
    by_cases he : e = 0
    · subst he
      by_cases hkt : k = t
      · subst hkt
        rw [expOf_eq_zero_of_not_mem r k hnot]
        simp
      · simp [hkt]
    · rw [a k (hb (k, e) (by simp) he) t]
      by_cases hkt : k = t
      · subst hkt
        rw [expOf_eq_zero_of_not_mem r k hnot]
        simp
      · simp [hkt]

theorem lookupDef_of_mem (rdefs : Defs) (h : OrderedR rdefs) (n : Sym) (d : Units)
    (hm : (n, d) ∈ rdefs) : lookupDef rdefs n = some d := by
  induction rdefs with
  | nil => cases hm
  | cons q older ih =>
    obtain ⟨n', d'⟩ := q
    obtain ⟨_, h2, h3⟩ := h
    simp only [lookupDef]
    rcases List.mem_cons.mp hm with heq | hm'
    · cases heq; simp
    · have := (h2 (n, d) hm').1
      simp only at this
      rw [if_neg (fun e => this e.symm)]
      exact ih h3 hm'

theorem dimU_powConst (rdefs : Defs) (u : Units) (k : Rat) (t : Sym) :
    dimU rdefs (powConst u k) t = dimU rdefs u t * k := by
  induction u with
  | nil => simp [dimU, powConst, sumRat]
  | cons p r ih =>
    obtain ⟨s, e⟩ := p
    simp only [dimU, powConst, List.map_cons, sumRat] at ih ⊢
    rw [ih]
    ring

theorem dimU_single (rdefs : Defs) (n : Sym) (k : Rat) (t : Sym) :
    dimU rdefs [(n, k)] t = k * dimSym rdefs n t := by
  simp [dimU, sumRat]

theorem dimU_nil_units (rdefs : Defs) (t : Sym) : dimU rdefs [] t = 0 := rfl

theorem unpack_empty (defs : Defs) : unpack defs [] = some [] := by
  simp [unpack, unpackD]

theorem guarded_true_defs (defs : Defs) (op : String) (ops : List (Units × Bool × Nat)) (w : Nat)
    (h : ops.all (fun r => !r.1.isEmpty || r.2.1) = true) :
    guarded defs op ops w = (operate defs op (ops.map (·.1))).map
      (fun r => (r.1, false, w + (if r.2 then 1 else 0))) := by
  unfold guarded
  rw [if_pos h]
  cases operate defs op (ops.map (·.1)) <;> rfl

theorem operate_un (defs : Defs) (op : String) (a a' : Units) (ha : unpack defs a = some a') :
    operate defs op [a] =
      (dispatch op [a']).map fun r => (packOr defs (filterZero r.1), r.2) := by
  simp only [operate, List.mapM_cons, List.mapM_nil, ha, bind, Option.bind, pure]
  cases dispatch op [a'] <;> rfl

theorem operate_bin (defs : Defs) (op : String) (a b a' b' : Units)
    (ha : unpack defs a = some a') (hb : unpack defs b = some b') :
    operate defs op [a, b] =
      (dispatch op [a', b']).map fun r => (packOr defs (filterZero r.1), r.2) := by
  simp only [operate, List.mapM_cons, List.mapM_nil, ha, hb, bind, Option.bind, pure]
  cases dispatch op [a', b'] <;> rfl

/-- an operand without unit takes the unit of the other operand (= `C08_addsub_empty`) -/
theorem addSub_empty (v : Units) : addSub [] v = (v, false) ∧ addSub v [] = (v, false) := by
  constructor
  · simp [addSub]
  · cases v <;> simp [addSub]

/-- dimensionally equal operands are no mismatch (= `C08_order_insensitive`) -/
theorem addSub_equiv (u v : Units) (hu : WF u) (hv : WF v) (nu : u ≠ []) (h : Equiv u v) :
    addSub u v = (u, false) := by
  have he : Equiv (filterZero u) (filterZero v) := fun s => by
    rw [expOf_filterZero u s hu, expOf_filterZero v s hv]; exact h s
  have hd := (dictEq_iff _ _ (WF_filterZero u hu) (WF_filterZero v hv) (NoZero_filterZero u)
    (NoZero_filterZero v)).mpr he
  cases u with
  | nil => exact absurd rfl nu
  | cons p r => simp [addSub, hd]

end QExPy.U

/-
  Helper lemmas for the fit-result theorems (Props/C07.lean): Horner's rule as a left fold,
  the quadratic form as a Finset sum and its extension to variables the formula does not
  depend on, the variables of the generated polynomial model.
-/
import QExPy.Real
import QExPy.Model.Fit
import QExPy.Props.C01

namespace QExPy
open Fit Expr

/-- finish a goal of real arithmetic left after unfolding a generated rule (so that harmless
    rewrites of the Python source — operand order, association, `-(a*x)` vs `-a*x` — still close) -/
macro "close_rule" : tactic =>
  `(tactic| first | done | ring1 | (ring_nf; done) | (field_simp; done) | (field_simp; ring1))

/-- Horner's rule as a left fold `((acc·x + l₀)·x + l₁)·x + …`, for any step function that
    *evaluates* to `a·x + b` -/
theorem horner_foldl (env : Nat → ℝ) (x : Expr ℝ) (f : Expr ℝ → Expr ℝ → Expr ℝ)
    (hf : ∀ a b, eval env (f a b) = eval env a * eval env x + eval env b)
    (l : List (Expr ℝ)) (acc : Expr ℝ) :
    eval env (l.foldl f acc)
      = eval env acc * (eval env x) ^ l.length
        + ∑ k ∈ Finset.range l.length,
            eval env (l.getD k (Expr.const 0)) * (eval env x) ^ (l.length - 1 - k) := by
  induction l generalizing acc with
  | nil => simp
  | cons b t ih =>
    have hs : ∀ k, t.length + 1 - 1 - (k + 1) = t.length - 1 - k := by intro k; omega
    rw [List.foldl_cons, ih, hf, List.length_cons, Finset.sum_range_succ']
    simp only [hs]
    simp
    ring

/-- `functools.reduce(step, cs)` with a Horner step is the polynomial `Σ_k cs_k x^(d−k)` -/
theorem eval_reduce1_horner (env : Nat → ℝ) (x : Expr ℝ) (f : Expr ℝ → Expr ℝ → Expr ℝ)
    (hf : ∀ a b, eval env (f a b) = eval env a * eval env x + eval env b)
    (cs : List (Expr ℝ)) :
    eval env (Expr.reduce1 f cs)
      = ∑ k ∈ Finset.range cs.length,
          eval env (cs.getD k (Expr.const 0)) * (eval env x) ^ (cs.length - 1 - k) := by
  cases cs with
  | nil => simp [Expr.reduce1, eval]
  | cons a t =>
    have hs : ∀ k, t.length + 1 - 1 - (k + 1) = t.length - 1 - k := by intro k; omega
    simp only [Expr.reduce1]
    rw [horner_foldl env x f hf, List.length_cons, Finset.sum_range_succ']
    simp only [hs]
    simp
    ring

theorem eval_vars_getD (env : Nat → ℝ) (m k : Nat) (hk : k < m) :
    eval env (((List.range m).map Expr.var).getD k (Expr.const 0)) = env k := by
  simp [List.getD, hk, eval]

theorem quadForm_congr (g : Nat → ℝ) (C C' : Nat → Nat → ℝ) (S : List Nat)
    (h : ∀ i ∈ S, ∀ j ∈ S, C i j = C' i j) : quadForm g C S = quadForm g C' S := by
  unfold quadForm
  congr 1
  apply List.map_congr_left
  intro i hi
  congr 1
  apply List.map_congr_left
  intro j hj
  rw [h i hi j hj]

theorem quadForm_finset (g : Nat → ℝ) (C : Nat → Nat → ℝ) (S : List Nat) (hS : S.Nodup) :
    quadForm g C S = ∑ i ∈ S.toFinset, ∑ j ∈ S.toFinset, g i * g j * C i j := by
  unfold quadForm
  rw [List.sum_toFinset _ hS]
  congr 1
  apply List.map_congr_left
  intro i _
  rw [List.sum_toFinset _ hS]

/-- adding variables on which the formula does not depend does not change the quadratic form -/
theorem quadForm_extend (g : Nat → ℝ) (C : Nat → Nat → ℝ) (S T : List Nat) (hS : S.Nodup)
    (hT : T.Nodup) (hsub : ∀ i ∈ S, i ∈ T) (hz : ∀ i ∈ T, i ∉ S → g i = 0) :
    quadForm g C S = quadForm g C T := by
  rw [quadForm_finset g C S hS, quadForm_finset g C T hT]
  have hsub' : S.toFinset ⊆ T.toFinset := by
    intro i hi; exact List.mem_toFinset.mpr (hsub i (List.mem_toFinset.mp hi))
  have hz' : ∀ i ∈ T.toFinset, i ∉ S.toFinset → g i = 0 := by
    intro i hi hni
    exact hz i (List.mem_toFinset.mp hi) (fun h => hni (List.mem_toFinset.mpr h))
  rw [← Finset.sum_subset hsub' (fun i hi hni => by simp [hz' i hi hni])]
  apply Finset.sum_congr rfl
  intro i _
  exact Finset.sum_subset hsub' (fun j hj hnj => by simp [hz' j hj hnj])

theorem mem_sources_bin {o : Op2} {a b : Expr ℝ} {k : Nat} :
    k ∈ sources (Expr.bin o a b) ↔ k ∈ sources a ∨ k ∈ sources b := by
  simp [sources, List.mem_eraseDups]

theorem sources_foldl (x : Expr ℝ) (f : Expr ℝ → Expr ℝ → Expr ℝ)
    (hf : ∀ a b k, k ∈ sources (f a b) → k ∈ sources a ∨ k ∈ sources x ∨ k ∈ sources b)
    (l : List (Expr ℝ)) (acc : Expr ℝ) (k : Nat) (hk : k ∈ sources (l.foldl f acc)) :
    k ∈ sources acc ∨ k ∈ sources x ∨ ∃ b ∈ l, k ∈ sources b := by
  induction l generalizing acc with
  | nil => exact Or.inl hk
  | cons b t ih =>
    rw [List.foldl_cons] at hk
    rcases ih _ hk with h | h | ⟨c, hc, h⟩
    · rcases hf _ _ _ h with h | h | h
      · exact Or.inl h
      · exact Or.inr (Or.inl h)
      · exact Or.inr (Or.inr ⟨b, List.mem_cons_self, h⟩)
    · exact Or.inr (Or.inl h)
    · exact Or.inr (Or.inr ⟨c, List.mem_cons_of_mem _ hc, h⟩)

theorem sources_reduce1 (x : Expr ℝ) (f : Expr ℝ → Expr ℝ → Expr ℝ)
    (hf : ∀ a b k, k ∈ sources (f a b) → k ∈ sources a ∨ k ∈ sources x ∨ k ∈ sources b)
    (cs : List (Expr ℝ)) (k : Nat) (hk : k ∈ sources (Expr.reduce1 f cs)) :
    k ∈ sources x ∨ ∃ b ∈ cs, k ∈ sources b := by
  cases cs with
  | nil => simp [Expr.reduce1, sources] at hk
  | cons a t =>
    simp only [Expr.reduce1] at hk
    rcases sources_foldl x f hf t a k hk with h | h | ⟨b, hb, h⟩
    · exact Or.inr ⟨a, List.mem_cons_self, h⟩
    · exact Or.inl h
    · exact Or.inr ⟨b, List.mem_cons_of_mem _ hb, h⟩

/-- the polynomial fit function depends on the parameter variables only -/
theorem sources_poly (m : Nat) (params : Nat → ℝ) (cov : Nat → Nat → ℝ) (x : ℝ) :
    ∀ k ∈ sources ((⟨m, Gen.fitRule .polynomial, params, cov⟩ : FitResult ℝ).funExpr (Expr.const x)),
      k < m := by
  intro k hk
  simp only [FitResult.funExpr, Gen.fitRule] at hk
  rcases sources_reduce1 (Expr.const x) _ (by
      intro a b k h
      simp only [mem_sources_bin] at h
      tauto) _ k hk with h | ⟨b, hb, h⟩
  · simp [sources] at h
  · obtain ⟨j, hj, rfl⟩ := List.mem_map.mp hb
    simp [sources] at h
    subst h
    exact List.mem_range.mp hj

/-- the other pre-set fit functions depend on their parameter variables only -/
theorem sources_preset (model : FitModel) (hm : model ≠ .polynomial) (params : Nat → ℝ)
    (cov : Nat → Nat → ℝ) (x : ℝ) :
    ∀ k ∈ sources ((⟨Gen.fitFixedParams model, Gen.fitRule model, params, cov⟩ :
      FitResult ℝ).funExpr (Expr.const x)), k < Gen.fitFixedParams model := by
  cases model <;>
    simp_all [FitResult.funExpr, Gen.fitRule, Gen.fitFixedParams, Expr.arg, sources, List.range_succ,
      List.eraseDups_cons]

end QExPy

/-
  Helper lemmas for the fit-result theorems (Props/C07.lean): Horner's rule as a left fold,
  the quadratic form as a Finset sum and its extension to variables the formula does not
  depend on, the variables of the generated polynomial model.
-/
import QExPy.Real
import QExPy.Model.Fit
import QExPy.Props.C01

namespace QExPy
open Fit Expr

/-- Horner's rule as a left fold: `((acc·x + l₀)·x + l₁)·x + …` -/
theorem horner_foldl (env : Nat → ℝ) (x : Expr ℝ) (l : List (Expr ℝ)) (acc : Expr ℝ) :
    eval env (l.foldl (fun a b => Expr.bin .add (Expr.bin .mul a x) b) acc)
      = eval env acc * (eval env x) ^ l.length
        + ∑ k ∈ Finset.range l.length,
            eval env (l.getD k (Expr.const 0)) * (eval env x) ^ (l.length - 1 - k) := by
  induction l generalizing acc with
  | nil => simp
  | cons b t ih =>
    have hs : ∀ k, t.length + 1 - 1 - (k + 1) = t.length - 1 - k := by intro k; omega
    rw [List.foldl_cons, ih, List.length_cons, Finset.sum_range_succ']
    simp only [hs]
    simp [eval, Gen.op2]
    ring

theorem eval_vars_getD (env : Nat → ℝ) (m k : Nat) (hk : k < m) :
    eval env (((List.range m).map Expr.var).getD k (Expr.const 0)) = env k := by
  simp [List.getD, hk, eval]

theorem quadForm_congr (g : Nat → ℝ) (C C' : Nat → Nat → ℝ) (S : List Nat)
    (h : ∀ i ∈ S, ∀ j ∈ S, C i j = C' i j) : quadForm g C S = quadForm g C' S := by
  unfold quadForm
  congr 1
  apply List.map_congr_left
  intro i hi
  congr 1
  apply List.map_congr_left
  intro j hj
  rw [h i hi j hj]

theorem quadForm_finset (g : Nat → ℝ) (C : Nat → Nat → ℝ) (S : List Nat) (hS : S.Nodup) :
    quadForm g C S = ∑ i ∈ S.toFinset, ∑ j ∈ S.toFinset, g i * g j * C i j := by
  unfold quadForm
  rw [List.sum_toFinset _ hS]
  congr 1
  apply List.map_congr_left
  intro i _
  rw [List.sum_toFinset _ hS]

/-- adding variables on which the formula does not depend does not change the quadratic form -/
theorem quadForm_extend (g : Nat → ℝ) (C : Nat → Nat → ℝ) (S T : List Nat) (hS : S.Nodup)
    (hT : T.Nodup) (hsub : ∀ i ∈ S, i ∈ T) (hz : ∀ i ∈ T, i ∉ S → g i = 0) :
    quadForm g C S = quadForm g C T := by
  rw [quadForm_finset g C S hS, quadForm_finset g C T hT]
  have hsub' : S.toFinset ⊆ T.toFinset := by
    intro i hi; exact List.mem_toFinset.mpr (hsub i (List.mem_toFinset.mp hi))
  have hz' : ∀ i ∈ T.toFinset, i ∉ S.toFinset → g i = 0 := by
    intro i hi hni
    exact hz i (List.mem_toFinset.mp hi) (fun h => hni (List.mem_toFinset.mpr h))
  rw [← Finset.sum_subset hsub' (fun i hi hni => by simp [hz' i hi hni])]
  apply Finset.sum_congr rfl
  intro i _
  exact Finset.sum_subset hsub' (fun j hj hnj => by simp [hz' j hj hnj])

theorem mem_sources_bin {o : Op2} {a b : Expr ℝ} {k : Nat} :
    k ∈ sources (Expr.bin o a b) ↔ k ∈ sources a ∨ k ∈ sources b := by
  simp [sources, List.mem_eraseDups]

theorem sources_horner (x : Expr ℝ) (l : List (Expr ℝ)) (acc : Expr ℝ) (k : Nat)
    (hk : k ∈ sources (l.foldl (fun a b => Expr.bin .add (Expr.bin .mul a x) b) acc)) :
    k ∈ sources acc ∨ k ∈ sources x ∨ ∃ b ∈ l, k ∈ sources b := by
  induction l generalizing acc with
  | nil => exact Or.inl hk
  | cons b t ih =>
    rw [List.foldl_cons] at hk
    rcases ih _ hk with h | h | ⟨c, hc, h⟩
    · rcases mem_sources_bin.mp h with h | h
      · rcases mem_sources_bin.mp h with h | h
        · exact Or.inl h
        · exact Or.inr (Or.inl h)
      · exact Or.inr (Or.inr ⟨b, List.mem_cons_self, h⟩)
    · exact Or.inr (Or.inl h)
    · exact Or.inr (Or.inr ⟨c, List.mem_cons_of_mem _ hc, h⟩)

/-- the polynomial fit function depends on the parameter variables only -/
theorem sources_poly (m : Nat) (params : Nat → ℝ) (cov : Nat → Nat → ℝ) (x : ℝ) :
    ∀ k ∈ sources ((⟨m, Gen.fitRule .polynomial, params, cov⟩ : FitResult ℝ).funExpr (Expr.const x)),
      k < m := by
  intro k hk
  simp only [FitResult.funExpr, Gen.fitRule, Expr.reduce1] at hk
  cases m with
  | zero => simp [sources] at hk
  | succ n =>
    rw [List.range_succ_eq_map, List.map_cons] at hk
    rcases sources_horner _ _ _ k hk with h | h | ⟨b, hb, h⟩
    · simp [sources] at h; omega
    · simp [sources] at h
    · obtain ⟨j, hj, rfl⟩ := List.mem_map.mp hb
      simp [sources] at h
      subst h
      obtain ⟨i, hi, rfl⟩ := List.mem_map.mp hj
      have := List.mem_range.mp hi
      omega

/-- the other pre-set fit functions depend on their parameter variables only -/
theorem sources_preset (model : FitModel) (hm : model ≠ .polynomial) (params : Nat → ℝ)
    (cov : Nat → Nat → ℝ) (x : ℝ) :
    ∀ k ∈ sources ((⟨Gen.fitFixedParams model, Gen.fitRule model, params, cov⟩ :
      FitResult ℝ).funExpr (Expr.const x)), k < Gen.fitFixedParams model := by
  cases model <;>
    simp_all [FitResult.funExpr, Gen.fitRule, Gen.fitFixedParams, Expr.arg, sources, List.range_succ,
      List.eraseDups_cons]

end QExPy

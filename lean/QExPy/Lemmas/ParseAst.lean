/-
  Syntax trees of the grammar of C12, their token rendering and their denotation; the
  reference parser `refExpr` is sound and complete for them (every accepted token list is the
  rendering of a syntax tree whose denotation is the parsed exponent map, and every rendering
  is accepted).  Together with `tokens_equiv` this carries over to the library's algorithm.

      expr   := term | expr ('*'|'/') term          (left associative)
      term   := factor | term factor                (juxtaposition, binds tighter)
      factor := SYMBOL | SYMBOL '^' POWER | '1' | '(' expr ')'
-/
import QExPy.Lemmas.ParseEquiv
import QExPy.Lemmas.Units
namespace QExPy.U

mutual
inductive Fac
  | sym (s : List Char)
  | pw (s e : List Char)
  | one
  | par (x : Expr)
inductive Term
  | single (f : Fac)
  | juxt (t : Term) (f : Fac)
inductive Expr
  | term (t : Term)
  | op (x : Expr) (isMul : Bool) (t : Term)
end

def opTok (o : Bool) : UTok := if o then .mul else .div

mutual
/-- the token a factor is written as -/
def Fac.tok : Fac → UTok
  | .sym s => .sym s
  | .pw s e => .pw s e
  | .one => .one
  | .par x => .par x.toks
def Term.toks : Term → List UTok
  | .single f => [f.tok]
  | .juxt t f => t.toks ++ [f.tok]
/-- the token list an expression is written as -/
def Expr.toks : Expr → List UTok
  | .term t => t.toks
  | .op x o t => x.toks ++ opTok o :: t.toks
end

def ind (s t : Sym) : Rat := if s = t then 1 else 0

mutual
/-- denotation: the exponent of every symbol, read with conventional precedence -/
def Fac.den : Fac → Sym → Rat
  | .sym s, t => ind s t
  | .pw s e, t => (powerVal e).getD 0 * ind s t
  | .one, _ => 0
  | .par x, t => x.den t
def Term.den : Term → Sym → Rat
  | .single f, t => f.den t
  | .juxt tm f, t => tm.den t + f.den t
def Expr.den : Expr → Sym → Rat
  | .term tm, t => tm.den t
  | .op x o tm, t => x.den t + (if o then 1 else -1) * tm.den t
end

mutual
/-- every written power has a value (`^(1/0)` has none) -/
def Fac.ok : Fac → Prop
  | .sym _ => True
  | .pw _ e => ∃ q, powerVal e = some q
  | .one => True
  | .par x => x.ok
def Term.ok : Term → Prop
  | .single f => f.ok
  | .juxt tm f => tm.ok ∧ f.ok
def Expr.ok : Expr → Prop
  | .term tm => tm.ok
  | .op x _ tm => x.ok ∧ tm.ok
end

mutual
def Fac.tree : Fac → Tree
  | .sym s => .leaf s
  | .pw s e => .pw s e
  | .one => .one
  | .par x => x.tree
def Term.tree : Term → Tree
  | .single f => f.tree
  | .juxt t f => .bin true t.tree f.tree
def Expr.tree : Expr → Tree
  | .term t => t.tree
  | .op x o t => .bin o x.tree t.tree
end

/-! ### completeness of the reference parser -/

def Term.items : Term → List Item
  | .single f => [.val f.tree]
  | .juxt t f => t.items ++ [.val f.tree]

def Expr.items : Expr → List Item
  | .term t => t.items
  | .op x o t => x.items ++ .op o :: t.items

theorem refItems_append (a b : List UTok) (ia ib : List Item) (ha : refItems a = some ia)
    (hb : refItems b = some ib) : refItems (a ++ b) = some (ia ++ ib) := by
  induction a generalizing ia with
  | nil => simp only [refItems, Option.some.injEq] at ha; subst ha; simpa using hb
  | cons t r ih =>
    simp only [refItems] at ha
    split at ha
    · rename_i i is hi his
      simp only [Option.some.injEq] at ha
      subst ha
      simp only [List.cons_append, refItems, hi, ih is his]
    · cases ha

theorem refItems_single (t : UTok) (i : Item) (h : refItem t = some i) :
    refItems [t] = some [i] := by
  simp [refItems, h]

theorem refItem_opTok (o : Bool) : refItem (opTok o) = some (.op o) := by
  cases o <;> simp [opTok, refItem]

theorem asm_term : (tm : Term) → ∀ (done : Option (Tree × Bool)) (r : List Item),
    asm done none (tm.items ++ r) = asm done (some tm.tree) r
  | .single f => fun done r => by simp [Term.items, Term.tree, asm]
  | .juxt t f => fun done r => by
    simp only [Term.items, Term.tree, List.append_assoc, asm_term t]
    simp [asm]

/-- state of the reference automaton after an expression that may still be continued -/
def Expr.stD : Expr → Option (Tree × Bool)
  | .term _ => none
  | .op x o _ => some (x.tree, o)
def Expr.stC : Expr → Tree
  | .term t => t.tree
  | .op _ _ t => t.tree

theorem asm_close (x : Expr) : asm x.stD (some x.stC) [] = some x.tree := by
  cases x <;> simp [Expr.stD, Expr.stC, Expr.tree, asm]

theorem asm_close_op (x : Expr) (o : Bool) (r : List Item) :
    asm x.stD (some x.stC) (.op o :: r) = asm (some (x.tree, o)) none r := by
  cases x <;> simp [Expr.stD, Expr.stC, Expr.tree, asm]

theorem asm_expr : (x : Expr) → ∀ r : List Item,
    asm none none (x.items ++ r) = asm x.stD (some x.stC) r
  | .term t => fun r => by simp [Expr.items, Expr.stD, Expr.stC, asm_term]
  | .op x o t => fun r => by
    simp only [Expr.items, List.append_assoc, List.cons_append, asm_expr x, asm_close_op, asm_term]
    rfl

mutual
theorem Fac.refItem_tok : (f : Fac) → refItem f.tok = some (.val f.tree)
  | .sym s => by simp [Fac.tok, Fac.tree, refItem]
  | .pw s e => by simp [Fac.tok, Fac.tree, refItem]
  | .one => by simp [Fac.tok, Fac.tree, refItem]
  | .par x => by
    have h := Expr.refItems_toks x
    have h2 := asm_expr x []
    simp only [List.append_nil, asm_close] at h2
    simp [Fac.tok, Fac.tree, refItem, h, h2]
theorem Term.refItems_toks : (t : Term) → refItems t.toks = some t.items
  | .single f => by
    simpa [Term.toks, Term.items] using refItems_single _ _ (Fac.refItem_tok f)
  | .juxt t f => by
    simpa [Term.toks, Term.items] using
      refItems_append _ _ _ _ (Term.refItems_toks t) (refItems_single _ _ (Fac.refItem_tok f))
theorem Expr.refItems_toks : (x : Expr) → refItems x.toks = some x.items
  | .term t => by simpa [Expr.toks, Expr.items] using Term.refItems_toks t
  | .op x o t => by
    have h1 := Expr.refItems_toks x
    have h2 := Term.refItems_toks t
    have h3 : refItems (opTok o :: t.toks) = some (.op o :: t.items) := by
      simp [refItems, refItem_opTok, h2]
    simpa [Expr.toks, Expr.items] using refItems_append _ _ _ _ h1 h3
end

/-- **completeness**: the rendering of a syntax tree is read as that tree -/
theorem refExpr_toks (x : Expr) : refExpr x.toks = some x.tree := by
  have h2 := asm_expr x []
  simp only [List.append_nil, asm_close] at h2
  simp [refExpr, Expr.refItems_toks, h2]

/-! ### soundness of the reference parser -/

/-- tokens read so far: a finished expression followed by an operator, then the current term -/
def stToks (dn : Option (Expr × Bool)) (cr : Option Term) : List UTok :=
  (match dn with
    | none => []
    | some (x, o) => x.toks ++ [opTok o]) ++
  (match cr with
    | none => []
    | some tm => tm.toks)

def stDone (dn : Option (Expr × Bool)) : Option (Tree × Bool) :=
  match dn with
  | none => none
  | some (x, o) => some (x.tree, o)

def stCur (cr : Option Term) : Option Tree :=
  match cr with
  | none => none
  | some tm => some tm.tree

theorem refItem_op_inv (tok : UTok) (o : Bool) (h : refItem tok = some (.op o)) :
    tok = opTok o := by
  cases tok with
  | mul => simp only [refItem, Option.some.injEq, Item.op.injEq] at h; subst h; rfl
  | div => simp only [refItem, Option.some.injEq, Item.op.injEq] at h; subst h; rfl
  | par ts =>
    simp only [refItem] at h
    split at h
    · cases hh : asm none none ‹_› <;> simp [hh] at h
    · cases h
  | _ => simp [refItem] at h

mutual
theorem sound_tok : (tok : UTok) → ∀ v, refItem tok = some (.val v) →
    ∃ f : Fac, f.tok = tok ∧ f.tree = v
  | .sym s => fun v h => ⟨.sym s, rfl, by simpa [refItem, Fac.tree] using h⟩
  | .pw s e => fun v h => ⟨.pw s e, rfl, by simpa [refItem, Fac.tree] using h⟩
  | .one => fun v h => ⟨.one, rfl, by simpa [refItem, Fac.tree] using h⟩
  | .mul => fun v h => by simp [refItem] at h
  | .div => fun v h => by simp [refItem] at h
  | .par ts => fun v h => by
    simp only [refItem] at h
    split at h
    · rename_i is his
      cases ha : asm none none is with
      | none => simp [ha] at h
      | some w =>
        simp only [ha, Option.map, Option.some.injEq, Item.val.injEq] at h
        subst h
        obtain ⟨a, h1, h2⟩ := sound_list ts none none is w his ha
        refine ⟨.par a, ?_, ?_⟩
        · simp only [Fac.tok, h1]; simp [stToks]
        · simpa [Fac.tree] using h2
    · cases h
theorem sound_list : (rest : List UTok) → ∀ (dn : Option (Expr × Bool)) (cr : Option Term)
    (is : List Item) (t : Tree), refItems rest = some is → asm (stDone dn) (stCur cr) is = some t →
    ∃ a : Expr, a.toks = stToks dn cr ++ rest ∧ a.tree = t
  | [] => fun dn cr is t his ha => by
    simp only [refItems, Option.some.injEq] at his
    subst his
    cases cr with
    | none => simp [stCur, asm] at ha
    | some tm =>
      cases dn with
      | none =>
        refine ⟨.term tm, by simp [Expr.toks, stToks], ?_⟩
        simpa [stDone, stCur, asm, Expr.tree] using ha
      | some d =>
        obtain ⟨x, o⟩ := d
        refine ⟨.op x o tm, by simp [Expr.toks, stToks], ?_⟩
        simpa [stDone, stCur, asm, Expr.tree] using ha
  | tok :: rest => fun dn cr is t his ha => by
    simp only [refItems] at his
    split at his
    · rename_i i is' hi his'
      simp only [Option.some.injEq] at his
      subst his
      cases i with
      | val v =>
        obtain ⟨f, hf1, hf2⟩ := sound_tok tok v hi
        cases cr with
        | none =>
          have ha' : asm (stDone dn) (stCur (some (.single f))) is' = some t := by
            simpa [stCur, asm, Term.tree, hf2] using ha
          obtain ⟨a, h1, h2⟩ := sound_list rest dn (some (.single f)) is' t his' ha'
          exact ⟨a, by simpa [stToks, Term.toks, hf1] using h1, h2⟩
        | some tm =>
          have ha' : asm (stDone dn) (stCur (some (.juxt tm f))) is' = some t := by
            simpa [stCur, asm, Term.tree, hf2] using ha
          obtain ⟨a, h1, h2⟩ := sound_list rest dn (some (.juxt tm f)) is' t his' ha'
          exact ⟨a, by simpa [stToks, Term.toks, hf1] using h1, h2⟩
      | op o =>
        have htok := refItem_op_inv tok o hi
        cases cr with
        | none => simp [stCur, asm] at ha
        | some tm =>
          cases dn with
          | none =>
            have ha' : asm (stDone (some (.term tm, o))) (stCur none) is' = some t := by
              simpa [stDone, stCur, asm, Expr.tree] using ha
            obtain ⟨a, h1, h2⟩ := sound_list rest (some (.term tm, o)) none is' t his' ha'
            exact ⟨a, by simpa [stToks, Expr.toks, htok] using h1, h2⟩
          | some d =>
            obtain ⟨x, po⟩ := d
            have ha' : asm (stDone (some (.op x po tm, o))) (stCur none) is' = some t := by
              simpa [stDone, stCur, asm, Expr.tree] using ha
            obtain ⟨a, h1, h2⟩ := sound_list rest (some (.op x po tm, o)) none is' t his' ha'
            exact ⟨a, by simpa [stToks, Expr.toks, htok] using h1, h2⟩
    · cases his
end

/-- **soundness**: an accepted token list is the rendering of a syntax tree, and the tree that
    was built is the tree of that syntax tree -/
theorem refExpr_sound (ts : List UTok) (t : Tree) (h : refExpr ts = some t) :
    ∃ a : Expr, a.toks = ts ∧ a.tree = t := by
  simp only [refExpr] at h
  split at h
  · rename_i is his
    obtain ⟨a, h1, h2⟩ := sound_list ts none none is t his h
    exact ⟨a, by simpa [stToks] using h1, h2⟩
  · cases h

/-! ### evaluation of the tree = denotation -/

theorem WF_single (s : Sym) (q : Rat) : WF [(s, q)] := by simp [WF]

theorem expOf_single (s : Sym) (q : Rat) (t : Sym) : expOf [(s, q)] t = q * ind s t := by
  simp only [expOf, ind]
  split <;> simp [Rat.mul_one, Rat.mul_zero]

mutual
theorem Fac.eval_ok : (f : Fac) → f.ok →
    ∃ u, evalTree f.tree = some u ∧ WF u ∧ ∀ s, expOf u s = f.den s
  | .sym s => fun _ => ⟨[(s, 1)], rfl, WF_single _ _, fun t => by
      rw [expOf_single]; simp [Fac.den, Rat.one_mul]⟩
  | .pw s e => fun h => by
    obtain ⟨q, hq⟩ := h
    exact ⟨[(s, q)], by simp [Fac.tree, evalTree, hq], WF_single _ _, fun t => by
      rw [expOf_single]; simp [Fac.den, hq]⟩
  | .one => fun _ => ⟨[], rfl, WF_nil, fun _ => rfl⟩
  | .par x => fun h => by simpa [Fac.tree, Fac.den] using Expr.eval_ok x h
theorem Term.eval_ok : (tm : Term) → tm.ok →
    ∃ u, evalTree tm.tree = some u ∧ WF u ∧ ∀ s, expOf u s = tm.den s
  | .single f => fun h => by simpa [Term.tree, Term.den] using Fac.eval_ok f h
  | .juxt tm f => fun h => by
    obtain ⟨a, ha, wa, da⟩ := Term.eval_ok tm h.1
    obtain ⟨b, hb, wb, db⟩ := Fac.eval_ok f h.2
    refine ⟨merge a b 1, by simp [Term.tree, evalTree, ha, hb], WF_merge _ _ _ wa, fun s => ?_⟩
    rw [expOf_merge _ _ _ _ wb, da, db]
    simp [Term.den, Rat.one_mul]
theorem Expr.eval_ok : (x : Expr) → x.ok →
    ∃ u, evalTree x.tree = some u ∧ WF u ∧ ∀ s, expOf u s = x.den s
  | .term tm => fun h => by simpa [Expr.tree, Expr.den] using Term.eval_ok tm h
  | .op x o tm => fun h => by
    obtain ⟨a, ha, wa, da⟩ := Expr.eval_ok x h.1
    obtain ⟨b, hb, wb, db⟩ := Term.eval_ok tm h.2
    refine ⟨merge a b (if o then 1 else -1), by simp [Expr.tree, evalTree, ha, hb],
      WF_merge _ _ _ wa, fun s => ?_⟩
    rw [expOf_merge _ _ _ _ wb, da, db]
    simp [Expr.den]
end

theorem evalTree_bin_some (o : Bool) (l r : Tree) (u : Units) (h : evalTree (.bin o l r) = some u) :
    ∃ a b, evalTree l = some a ∧ evalTree r = some b := by
  simp only [evalTree] at h
  cases ha : evalTree l with
  | none => simp [ha] at h
  | some a =>
    cases hb : evalTree r with
    | none => simp [ha, hb] at h
    | some b => exact ⟨a, b, rfl, rfl⟩

mutual
theorem Fac.ok_of_eval : (f : Fac) → ∀ u, evalTree f.tree = some u → f.ok
  | .sym s => fun _ _ => trivial
  | .pw s e => fun u h => by
    simp only [Fac.tree, evalTree] at h
    cases hq : powerVal e with
    | none => simp [hq] at h
    | some q => exact ⟨q, hq⟩
  | .one => fun _ _ => trivial
  | .par x => fun u h => Expr.ok_of_eval x u h
theorem Term.ok_of_eval : (tm : Term) → ∀ u, evalTree tm.tree = some u → tm.ok
  | .single f => fun u h => Fac.ok_of_eval f u h
  | .juxt tm f => fun u h => by
    obtain ⟨a, b, ha, hb⟩ := evalTree_bin_some _ _ _ u h
    exact ⟨Term.ok_of_eval tm a ha, Fac.ok_of_eval f b hb⟩
theorem Expr.ok_of_eval : (x : Expr) → ∀ u, evalTree x.tree = some u → x.ok
  | .term tm => fun u h => Term.ok_of_eval tm u h
  | .op x o tm => fun u h => by
    obtain ⟨a, b, ha, hb⟩ := evalTree_bin_some _ _ _ u h
    exact ⟨Expr.ok_of_eval x a ha, Term.ok_of_eval tm b hb⟩
end

end QExPy.U

/-
  Types shared by the generated printing constants and the printing model. Core Lean only.
-/
namespace QExPy.Printing

/-- the function applied to `x / back_off` in `__round_values_to_sig_figs` -/
inductive RoundKind where
  | halfEven   -- Python's built-in `round`
  | floor      -- `math.floor`
  | ceil       -- `math.ceil`
  | trunc      -- `int` / `math.trunc`
  deriving DecidableEq, Repr, Inhabited

end QExPy.Printing

/-
  Exact model of qexpy/utils/printing.py over the rationals (C09).

  Inputs are the exact rational values of the two floats.  The algorithm follows printing.py
  step by step: `roundSig` = `__round_values_to_sig_figs`, `numDecimals` =
  `__find_number_of_decimals`, `defaultPrinter`, `sciPrinter` (order of magnitude from |value|,
  from the uncertainty when the value is 0, fallback to the default printer when the order is 0).
  The constants (back-off exponent, decimals formula, rounding function, clip, fallback order)
  come from the generated file.  What is not modelled: binary rounding inside `x / back_off`,
  `10 ** k`, `k * back_off` and `'{:.nf}'.format` (see PrintedOK's allowance).  Core Lean only.
-/
import QExPy.Model.PrintingTypes
import QExPy.Generated.Printing

namespace QExPy.Printing

inductive Style where
  | default | scientific | latex
  deriving DecidableEq, Repr, Inhabited

inductive Mode where
  | auto | error | value
  deriving DecidableEq, Repr, Inhabited

structure PCfg where
  style : Style
  mode : Mode
  n : Nat            -- number of significant figures, ≥ 1
  deriving DecidableEq, Repr, Inhabited

/-- `10 ** k` -/
def p10 (k : Int) : Rat := (10 : Rat) ^ k

def qabs (q : Rat) : Rat := if q < 0 then -q else q

/-- ⌊log₁₀ n⌋ for n ≥ 1 (0 for n = 0) -/
def natLog10 (n : Nat) : Nat := if n < 10 then 0 else natLog10 (n / 10) + 1
decreasing_by omega

/-- `math.floor(math.log10(abs(q)))`, exactly: the `k` with `10^k ≤ |q| < 10^(k+1)` (0 for q = 0) -/
def ilog10 (q : Rat) : Int :=
  if q = 0 then 0 else
    let d : Int := (natLog10 q.num.natAbs : Int) - (natLog10 q.den : Int)
    if p10 d ≤ qabs q then d else d - 1

/-- Python's `round(q)`: nearest integer, ties to even -/
def roundHE (q : Rat) : Int :=
  let f := q.floor
  let r := q - (f : Rat)
  if r < 1 / 2 then f
  else if 1 / 2 < r then f + 1
  else if f % 2 = 0 then f else f + 1

def roundK : RoundKind → Rat → Int
  | .halfEven, q => roundHE q
  | .floor, q => q.floor
  | .ceil, q => q.ceil
  | .trunc, q => if q < 0 then q.ceil else q.floor

/-- automatic and error mode count significant figures on the uncertainty -/
def Mode.onError : Mode → Bool
  | .value => false
  | _ => true

/-- the number whose n-th significant figure fixes the place -/
def pivot (m : Mode) (v e : Rat) : Rat := if m.onError then e else v

/-- `__round_values_to_sig_figs` -/
def roundSig (cfg : PCfg) (v e : Rat) : Rat × Rat :=
  if cfg.mode.onError then
    if e = 0 then (v, e)
    else
      let b := p10 (Gen.backoffErr (ilog10 e) cfg.n)
      ((roundK Gen.roundValKind (v / b) : Rat) * b, (roundK Gen.roundErrKind (e / b) : Rat) * b)
  else
    if v = 0 then (v, e)
    else
      let b := p10 (Gen.backoffVal (ilog10 v) cfg.n)
      ((roundK Gen.roundValKind (v / b) : Rat) * b, (roundK Gen.roundErrKind (e / b) : Rat) * b)

/-- `__find_number_of_decimals(value, error, shift)` -/
def numDecimals (cfg : PCfg) (v e : Rat) (shift : Int) : Nat :=
  let order :=
    if cfg.mode.onError then (if e ≠ 0 then ilog10 e else ilog10 v)
    else (if v ≠ 0 then ilog10 v else ilog10 e)
  let d := Gen.decimalsRaw order cfg.n shift
  if Gen.minDecimals < d then d.toNat else Gen.minDecimals.toNat

/-- what is printed, read back: value = `mantV · 10^(pow10 − decV)`,
    uncertainty = `mantE · 10^(pow10 − decE)` -/
structure Printed where
  mantV : Int
  mantE : Int
  decV : Nat
  decE : Nat
  pow10 : Int
  errBare : Bool     -- the uncertainty is printed as the bare `0`
  sci : Bool         -- `( … ) * 10^k` form
  latex : Bool       -- `\pm` instead of `+/-`
  deriving DecidableEq, Repr, Inhabited

/-- `'{:.{d}f}'.format(x)`: the digits of `x` rounded (half-even) to `d` decimals -/
def fmtFixed (x : Rat) (d : Nat) : Int := roundHE (x * p10 d)

def zeroForm (latex : Bool) : Printed :=
  { mantV := 0, mantE := 0, decV := 0, decE := 0, pow10 := 0, errBare := true, sci := false,
    latex := latex }

/-- `__default_printer` -/
def defaultPrinter (cfg : PCfg) (v e : Rat) (latex : Bool) : Printed :=
  if v = 0 ∧ e = 0 then zeroForm latex
  else
    let r := roundSig cfg v e
    let d := numDecimals cfg r.1 r.2 0
    { mantV := fmtFixed r.1 d, mantE := if e ≠ 0 then fmtFixed r.2 d else 0,
      decV := d, decE := if e ≠ 0 then d else 0, pow10 := 0, errBare := decide (e = 0),
      sci := false, latex := latex }

/-- `__scientific_printer` -/
def sciPrinter (cfg : PCfg) (v e : Rat) (latex : Bool) : Printed :=
  if v = 0 ∧ e = 0 then zeroForm latex
  else
    let order := if v ≠ 0 then ilog10 v else ilog10 e
    if order = Gen.sciFallbackOrder then defaultPrinter cfg v e latex
    else
      let r := roundSig cfg v e
      let d := numDecimals cfg r.1 r.2 order
      { mantV := fmtFixed (r.1 / p10 order) d,
        mantE := if e ≠ 0 then fmtFixed (r.2 / p10 order) d else 0,
        decV := d, decE := if e ≠ 0 then d else 0, pow10 := order, errBare := decide (e = 0),
        sci := true, latex := latex }

/-- `get_printer()(value, error)` -/
def fmt (cfg : PCfg) (v e : Rat) : Printed :=
  match cfg.style with
  | .default => defaultPrinter cfg v e false
  | .scientific => sciPrinter cfg v e false
  | .latex => sciPrinter cfg v e true

/-! ### the property as a decidable predicate -/

/-- the allowance: half a unit plus the 0.05 unit of two-stage rounding -/
def tol : Rat := 1 / 2 + 1 / 20

/-- `q` is an integer multiple of `10^k` -/
def IsMult (q : Rat) (k : Int) : Prop := ((q / p10 k).floor : Rat) = q / p10 k

instance (q : Rat) (k : Int) : Decidable (IsMult q k) := by unfold IsMult; infer_instance

/-- the printed pair is `v`, `e` rounded at the common place `10^pl`, and shown to that place
    (or to the printed power of ten when the place lies above it: `57000 ± 1000`) -/
def PlaceOK (v e : Rat) (p : Printed) (pl : Int) : Prop :=
  let pv : Rat := (p.mantV : Rat) * p10 (p.pow10 - p.decV)
  let pe : Rat := (p.mantE : Rat) * p10 (p.pow10 - p.decE)
  p.pow10 - (p.decV : Int) = min pl p.pow10 ∧
  IsMult pv pl ∧ qabs (pv - v) ≤ tol * p10 pl ∧
  (e ≠ 0 → IsMult pe pl ∧ qabs (pe - e) ≤ tol * p10 pl)

instance (v e : Rat) (p : Printed) (pl : Int) : Decidable (PlaceOK v e p pl) := by
  unfold PlaceOK; infer_instance

/-- **the property on one output.**  `p` is what was printed for value `v`, uncertainty `e`
    under `cfg`.
    * common place: when `e ≠ 0` both numbers show the same number of decimals;
    * let `x` be the uncertainty (automatic / error mode) or the value (value mode).
      `x = 0`: no place is prescribed, both numbers are faithful to the last printed place.
      `x ≠ 0`: the place is the one of the n-th significant figure of `x`,
      `p₀ = ilog10 x − n + 1`, or `p₀ + 1` when rounding `x` there carries into the next decade
      (`0.096 → 0.1`; allowed as soon as `|x|/10^p₀ ≥ 10^n − 1/2 − 1/20`). -/
def PrintedOK (v e : Rat) (cfg : PCfg) (p : Printed) : Prop :=
  let x := pivot cfg.mode v e
  (e ≠ 0 → p.decE = p.decV) ∧
  (if x = 0 then
    let u := p10 (p.pow10 - p.decV)
    qabs ((p.mantV : Rat) * u - v) ≤ tol * u ∧ (e ≠ 0 → qabs ((p.mantE : Rat) * u - e) ≤ tol * u)
  else
    let p0 : Int := ilog10 x - cfg.n + 1
    PlaceOK v e p p0 ∨
      (p10 cfg.n - tol ≤ qabs x / p10 p0 ∧ PlaceOK v e p (p0 + 1)))

instance (v e : Rat) (cfg : PCfg) (p : Printed) : Decidable (PrintedOK v e cfg p) := by
  unfold PrintedOK; infer_instance

end QExPy.Printing

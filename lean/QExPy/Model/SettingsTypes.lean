/-
  Types of the settings state machine (qexpy/settings/settings.py).
  Hand written; `QExPy/Generated/Settings.lean` (translator) fills in the tables
  over these types, `QExPy/Model/Settings.lean` the transitions.  Core Lean only.
-/
namespace QExPy.Settings

/-- the four enum classes of settings.py -/
inductive EnumTy where
  | errorMethod | printStyle | unitStyle | sigFigMode
  deriving DecidableEq, Repr, Inhabited

/-- a Python `float` (exact value as a reduced fraction) -/
inductive FloatV where
  | fin (num : Int) (den : Nat)
  | posInf | negInf | nan
  deriving DecidableEq, Repr, Inhabited

/-- `x > 0` on Python floats (`nan > 0` is `False`) -/
def FloatV.pos : FloatV → Bool
  | .fin n _ => decide (0 < n)
  | .posInf => true
  | _ => false

/-- the settings singleton: `Settings.__config`.  Enum-valued options hold the index of the
    member in the generated member table of their enum class. -/
structure Cfg where
  errorMethod : Nat
  printStyle : Nat
  unitStyle : Nat
  sigMode : Nat
  sigVal : Int
  mcSize : Int
  plotW : FloatV
  plotH : FloatV
  deriving DecidableEq, Repr, Inhabited

/-- what a caller can pass where one scalar is expected -/
inductive Scalar where
  | enumMember (ty : EnumTy) (idx : Nat)   -- member `idx` of enum class `ty`
  | str (s : String)
  | int (z : Int)
  | float (x : FloatV)
  | bool (b : Bool)
  | none
  | other                                  -- list, dict, object(), numpy scalar, nested tuple …
  deriving DecidableEq, Repr, Inhabited

/-- what a caller can pass to a `set_*` function -/
inductive Arg where
  | scalar (s : Scalar)
  | tuple (l : List Scalar)
  deriving DecidableEq, Repr, Inhabited

/-- result of one request: carried out, or refused with an exception -/
inductive Res where
  | ok | reject
  deriving DecidableEq, Repr, Inhabited

/-- how a wrapped computation (the function under `use_mc_sample_size`) ends: it returns, or it
    raises an instance of the class called `cls`; `isExc` = `issubclass(cls, Exception)` — False
    for `KeyboardInterrupt`, `SystemExit`, `GeneratorExit` and every class derived directly from
    `BaseException`, which an `except Exception:` clause does not see -/
inductive Outcome where
  | returned
  | raised (cls : String) (isExc : Bool)
  deriving DecidableEq, Repr, Inhabited

end QExPy.Settings

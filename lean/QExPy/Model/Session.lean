/-
  Session model (C07): what the requests of a session that do NOT name a fit result do to the
  register of covariances in which the fit recorded the covariances of its parameters.
  Core Lean only (linked into the driver).

  The library keeps one static register keyed by the (unordered) pair of object ids
  (qexpy/data/data.py: ExperimentalValue._correlations); objects get fresh ids.  The model keeps
  ids as naturals handed out in order, covariance values as opaque codes (the numbers themselves are
  the business of Model/Fit.lean), the configuration as the list of settings that differ from the
  default, and the compound-unit definitions as a list of names.
-/
namespace QExPy.Session

/-- the register: covariance records keyed by a pair of object ids, newest first -/
abbrev Reg := List ((Nat × Nat) × Int)

structure State where
  config : List (String × Int)
  units : List String
  reg : Reg
  next : Nat

/-- requests of a session.  `newObjects n covs`: `n` objects are made (another fit, other
    measurements, values returned by `fit_function`) and covariances are recorded among THEM
    (`covs` indexes them from 0).  `resetCorrelations` is the documented request to forget every
    record; it is in the model so that the theorems can say what distinguishes it. -/
inductive Req where
  | setSetting (k : String) (v : Int)
  | resetConfig
  | clearUnits
  | defineUnit (n : String)
  | newObjects (n : Nat) (covs : Reg)
  | rejected
  | collect
  | resetCorrelations

def keyMatch (i j : Nat) (e : (Nat × Nat) × Int) : Bool :=
  (e.1.1 == i && e.1.2 == j) || (e.1.1 == j && e.1.2 == i)

/-- `get_covariance(a, b)` as far as the register is concerned: the newest record of the pair -/
def lookup (s : State) (i j : Nat) : Option Int := (s.reg.find? (keyMatch i j)).map (·.2)

def shift (b : Nat) (e : (Nat × Nat) × Int) : (Nat × Nat) × Int := ((b + e.1.1, b + e.1.2), e.2)

def step (s : State) : Req → State
  | .setSetting k v => { s with config := (k, v) :: s.config.filter (fun e => e.1 != k) }
  | .resetConfig => { s with config := [] }
  | .clearUnits => { s with units := [] }
  | .defineUnit n => { s with units := n :: s.units }
  | .newObjects n covs => { s with reg := covs.map (shift s.next) ++ s.reg, next := s.next + n }
  | .rejected => s
  | .collect => s
  | .resetCorrelations => { s with reg := [] }

def run (s : State) (rs : List Req) : State := rs.foldl step s

/-- the one request that asks for the records to be forgotten -/
def Req.forgets : Req → Bool
  | .resetCorrelations => true
  | _ => false

/-- all pairs `i < j < m`, the record of pair (i, j) carrying the code `i * m + j` -/
def fitRecords (m : Nat) : Reg :=
  (List.range m).flatMap fun i =>
    ((List.range m).filter (fun j => i < j)).map fun j => ((i, j), Int.ofNat (i * m + j))

/-- the state right after a fit with `m` parameters in a fresh session -/
def afterFit (m : Nat) : State := { config := [], units := [], reg := fitRecords m, next := m }

end QExPy.Session

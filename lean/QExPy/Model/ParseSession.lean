/-
  A *session* of `parse_unit_string` calls (C12, histories).

  C12 says what ONE call returns.  A program makes many calls, keeps the mappings it was handed
  and edits them (`u = parse_unit_string("m/s"); u["s"] -= 1`).  `parse_unit_string` has no state:
  every call builds a new `OrderedDict`, so the reply to a call is a function of its string alone
  and a mapping that was handed out belongs to the caller.  The session model makes that explicit:
  the state is the list of mappings the callers hold (one slot per request, `none` for a request
  that hands out nothing), a `parse` request appends `parse s` and never looks at the state, an
  `edit` changes exactly the slot it names.

  Every entry point that takes a unit string (`Measurement(unit=s)`, `x.unit = s`,
  `MeasurementArray(unit=s)`, `array.unit = s`, `define_unit(name, s)`) stores `parse s`: in the
  model they are all the request `parse`.

  Core Lean only (linked into the driver).
-/
import QExPy.Model.Units
import QExPy.Model.UnitParse
namespace QExPy.U

/-- what a caller does with a mapping it was handed (Python dict operations) -/
inductive Edit
  | set (k : Sym) (v : Rat)     -- `d[k] = v`
  | pop (k : Sym)               -- `d.pop(k)` / `del d[k]` (key present)
  | clear                       -- `d.clear()`
  deriving Repr

/-- `d[k] = v` on an insertion-ordered dict: replace in place or append -/
def setKey (u : Units) (k : Sym) (v : Rat) : Units :=
  match u with
  | [] => [(k, v)]
  | (a, b) :: r => if a = k then (a, v) :: r else (a, b) :: setKey r k v

def applyEdit (u : Units) : Edit → Units
  | .set k v => setKey u k v
  | .pop k => u.filter fun p => p.1 != k
  | .clear => []

/-- one request of a session; handles are request indices -/
inductive PReq
  | parse (s : List Char)       -- a call of any entry point with the unit string `s`
  | edit (h : Nat) (e : Edit)   -- the caller edits the mapping it got from request `h`
  | read (h : Nat)              -- the caller looks at the mapping it got from request `h`
  deriving Repr

/-- the mappings handed out so far, one slot per request (`none`: the request raised, or it was
    an edit / a read) -/
abbrev Handles := List (Option Units)

def slot (hs : Handles) (h : Nat) : Option Units := (hs[h]?).join

/-- one request: the new state and the reply (`none` = raised / nothing to look at) -/
def stepS (hs : Handles) : PReq → Handles × Option Units
  | .parse s => (hs ++ [parse s], parse s)
  | .edit h e =>
    match slot hs h with
    | some u => ((hs.set h (some (applyEdit u e))) ++ [none], some (applyEdit u e))
    | none => (hs ++ [none], none)
  | .read h => (hs ++ [none], slot hs h)

/-- the state after a history -/
def stateS (hs : Handles) (rs : List PReq) : Handles := rs.foldl (fun st r => (stepS st r).1) hs

/-- the replies of a whole history, request by request -/
def runS (hs : Handles) : List PReq → List (Option Units)
  | [] => []
  | r :: rs => (stepS hs r).2 :: runS (stepS hs r).1 rs

end QExPy.U

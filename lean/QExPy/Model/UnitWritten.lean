/-
  Formulas as the user TYPES them (C08, C18): a leaf is `Measurement(v, e, unit=s)` with a unit
  STRING `s` — any sentence of the unit grammar: `kg*m/s^2`, `kg/s^2*m^2`, `m/s/s`, `N/m/m`,
  `kg*m*m/s^2`, `kg*m^2/(s^2*m)`, `kg*m^2/s^2A^2`, `1/s` — not an exponent map.  The library
  turns the string into the map with `parse_unit_string`; the model does the same with `parse`
  (Model/UnitParse.lean) and only then evaluates the formula (`unitOf`, Model/Units.lean).

  Core Lean only (linked into the driver).
-/
import QExPy.Model.Units
import QExPy.Model.UnitParse
namespace QExPy.U

/-- a unit-expression tree whose leaves are written: `leafS s` a quantity created with the unit
    string `s`, `leafU u` a quantity whose exponent map is given directly (results of earlier
    arithmetic handed in, fractional exponents) -/
inductive WTree
  | leafS (s : List Char)
  | leafU (u : Units)
  | const
  | un (op : String) (a : WTree)
  | bin (op : String) (a b : WTree)
  | powc (a : WTree) (k : Rat)

/-- the constructors run: every unit string is parsed; `none` = some `Measurement(unit=s)`
    raised (the string is not a unit) -/
def WTree.read : WTree → Option UTree
  | .leafS s => (parse s).map UTree.leaf
  | .leafU u => some (UTree.leaf u)
  | .const => some UTree.const
  | .un op a => a.read.map (UTree.un op)
  | .bin op a b =>
    match a.read, b.read with
    | some x, some y => some (UTree.bin op x y)
    | _, _ => none
  | .powc a k => a.read.map fun x => UTree.powc x k

/-- the unit of the result of a formula typed with unit strings -/
def unitOfW (defs : Defs) (w : WTree) : Option (Units × Bool × Nat) :=
  match w.read with
  | some t => unitOf defs t
  | none => none

end QExPy.U

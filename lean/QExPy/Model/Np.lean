/-
  The numpy / Python built-ins the translated fragments (`QExPy/Generated/Stats.lean`,
  `Corr.lean`, `Uncert.lean`, …) are written in.  These are the *meaning given to library calls
  that are not QExPy's own code*: modelled, not translated (trusted base: numpy / CPython).

  Core Lean only, generic over `Num`.
-/
import QExPy.Num

namespace QExPy
variable {α : Type} [Num α]

namespace Np

/-- `np.mean(a)`: Σa / len(a) -/
def mean (xs : List α) : α := Num.div (Num.sum xs) (Num.ofNat xs.length)

/-- `np.var(a, ddof)`: Σ(a − mean a)² / (len(a) − ddof) -/
def var (ddof : Nat) (xs : List α) : α :=
  Num.div (Num.sum ((xs.map fun x => Num.sub x (mean xs)).map Num.sq))
    (Num.ofNat (xs.length - ddof))

/-- `np.std(a, ddof=ddof)` -/
def std (ddof : Nat) (xs : List α) : α := Num.sqrt (var ddof xs)

end Np

namespace Py

/-- Python's `max(a, b)`: the first argument unless the second is greater -/
def max (a b : α) : α := if Num.lt a b then b else a

/-- Python's `min(a, b)`: the first argument unless the second is smaller -/
def min (a b : α) : α := if Num.lt b a then b else a

end Py
end QExPy

/-
  Statistics of an array of readings
  (qexpy/data/datasets.py: ExperimentalValueArray.mean / std / error_on_mean /
   error_weighted_mean / propagated_error / sum; qexpy/utils/utils.py: calculate_covariance;
   qexpy/data/data.py: RepeatedlyMeasuredValue.__init__, use_* selectors).

  Generic over `Num`: run with `FB` (Float + rounding bound) by the driver, proved with `ℝ`.
  Every formula the library computes itself is the term the translator regenerates from the
  source on each run (`QExPy/Generated/Stats.lean`, section `stats`); what is written out here
  (`devs`, `ssq`, `var1`, `weights`) is the textbook vocabulary of the theorems.
  Shared by C10 (statistics), C04 (inferred covariance), C17 (aggregates), C14 (repeated values).
-/
import QExPy.Num
import QExPy.Generated.Stats

namespace QExPy.Stats
variable {α : Type} [Num α]

/-- `np.mean(values)` -/
def mean (xs : List α) : α := Gen.arrMeanValue xs

/-- deviations from the mean, `x - np.mean(arr)` -/
def devs (xs : List α) : List α := xs.map fun x => Num.sub x (mean xs)

/-- Σ (x - mean)² -/
def ssq (xs : List α) : α := Num.sum ((devs xs).map Num.sq)

/-- sample variance, `ddof = 1` -/
def var1 (xs : List α) : α := Num.div (ssq xs) (Num.ofNat (xs.length - 1))

/-- `np.std(values, ddof=1)` -/
def std1 (xs : List α) : α := Gen.arrStd Gen.arrStdDdof xs

/-- `error_on_mean`: `std() / sqrt(size)` -/
def sem (xs : List α) : α := Gen.arrSem xs

/-- `weights = 1 / err**2` -/
def weights (es : List α) : List α := es.map fun e => Num.div (Num.ofNat 1) (Num.sq e)

/-- `error_weighted_mean`: `sum(weights * values) / sum(weights)` -/
def wmean (xs es : List α) : α := Gen.arrWmean xs es

/-- `propagated_error`: `1 / sqrt(sum(weights))` -/
def perr (es : List α) : α := Gen.arrPerr es

/-- `calculate_covariance`: `1/(n-1) * sum((x - mean x) * (y - mean y))` -/
def cov1 (xs ys : List α) : α := Gen.calcCov xs ys

/-- normalised form `cov / (std_x * std_y)` -/
def corr (xs ys : List α) : α := Num.div (cov1 xs ys) (Num.mul (std1 xs) (std1 ys))

/-- clip to `[lo, hi]`: Python's `min(max(x, lo), hi)` -/
def clip (x lo hi : α) : α :=
  let m := if Num.lt x lo then lo else x      -- max(x, lo)
  if Num.lt hi m then hi else m               -- min(m, hi)

/-- `ExperimentalValueArray.sum`: (Σ x, sqrt Σ s²) -/
def sumPair (xs es : List α) : α × α := (Gen.arrSumValue xs es, Gen.arrSumError xs es)

/-- `ExperimentalValueArray.mean`: (mean, std/√n) -/
def meanPair (xs : List α) : α × α := (Gen.arrMeanValue xs, Gen.arrMeanError xs)

/-! ### the use_* selector state machine of a RepeatedlyMeasuredValue -/

/-- what the selectors read and write: the readings, their individual uncertainties (all zero
    when none were given) and the (value, uncertainty) pair used downstream -/
structure Rep (α : Type) where
  xs : List α
  es : List α
  value : α
  error : α

inductive Sel where
  | useStd | useSem | useWmean | usePerr
  deriving DecidableEq, Repr, Inhabited

def Sel.all : List Sel := [.useStd, .useSem, .useWmean, .usePerr]
def Sel.name : Sel → String
  | .useStd => "use_std" | .useSem => "use_sem" | .useWmean => "use_wmean" | .usePerr => "use_perr"
def Sel.ofName? (s : String) : Option Sel := Sel.all.find? (·.name == s)

/-- constructor: value = mean, uncertainty = error on the mean -/
def Rep.init (xs es : List α) : Rep α := ⟨xs, es, Gen.repInitValue xs, Gen.repInitError xs⟩

/-- `any(err == 0 for err in errors)`: the weighted statistics are then `nan` and ignored -/
def hasZero (es : List α) : Bool := Gen.arrWmeanNan es

/-- write back the (`_value`, `_error`) pair a selector leaves -/
def Rep.set (r : Rep α) (p : α × α) : Rep α := { r with value := p.1, error := p.2 }

def Rep.step (r : Rep α) : Sel → Rep α
  | .useStd => r.set (Gen.useStd r.xs r.es r.value r.error)
  | .useSem => r.set (Gen.useSem r.xs r.es r.value r.error)
  | .useWmean => r.set (Gen.useWmean r.xs r.es r.value r.error)
  | .usePerr => r.set (Gen.usePerr r.xs r.es r.value r.error)

def Rep.run (r : Rep α) (ss : List Sel) : Rep α := ss.foldl Rep.step r

end QExPy.Stats

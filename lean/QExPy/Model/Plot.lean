/-
  C19 — what is drawn equals the data.

  Model of qexpy/plotting/plotting.py (`Plot.__prepare_fig`, `xrange`, `xlabel/ylabel`,
  `xname/xunit/yname/yunit`) and qexpy/plotting/plotobjects.py (`XYDataSetOnPlot`,
  `FunctionOnPlot`, `XYFitResultOnPlot`, `HistogramOnPlot` and their `show` methods):
  a plot is rendered into a list of draw commands.  matplotlib itself and `numpy.histogram`
  are not modelled; the correspondence run reads the artists back from the Agg backend and
  diffs them with `render`.
-/
import QExPy.Model.Expr
import QExPy.Generated.Plot
namespace QExPy.Plot
variable {α : Type} [Num α]

/-! ### numeric helpers -/

/-- `low <= x < high` (`XYDataSetOnPlot.__get_indices_from_xrange`) -/
def inRange (lo hi x : α) : Bool := Gen.plotInRange lo hi x

/-- numpy boolean-mask indexing `arr[mask]` -/
def maskBy : List Bool → List α → List α
  | b :: bs, x :: xs => if b then x :: maskBy bs xs else maskBy bs xs
  | _, _ => []

/-- `np.linspace(a, b, n)`: `a + i*step` with `step = (b-a)/(n-1)`, the last point set to `b` -/
def linspace (a b : α) (n : Nat) : List α :=
  (List.range n).map fun i =>
    if i + 1 = n then b
    else Num.add a (Num.mul (Num.ofNat i) (Num.div (Num.sub b a) (Num.ofNat (n - 1))))

def min2 (a b : α) : α := if Num.le a b then a else b
def max2 (a b : α) : α := if Num.le a b then b else a

/-- Python's `min(...)` / `max(...)` of a non-empty sequence -/
def minL : List α → Option α
  | [] => none
  | x :: xs => some (xs.foldl min2 x)
def maxL : List α → Option α
  | [] => none
  | x :: xs => some (xs.foldl max2 x)

/-! ### objects on a plot -/

structure DataSet (α : Type) where
  xs : List α
  ys : List α
  xerr : List α
  yerr : List α
  range : Option (α × α)
  xname : String
  xunit : String
  yname : String
  yunit : String
  label : String          -- legend label: `label=` keyword, else the data set's name
  deriving Inhabited

/-- a function of x as a formula: `var 0` is x, `var k` (k ≥ 1) are parameters with central
    values `env k`, uncertainties `σ k` and correlations `ρ` (plain-number parameters have σ = 0) -/
structure Func (α : Type) where
  f : Expr α
  env : Nat → α
  σ : Nat → α
  ρ : Nat → Nat → α
  range : Option (α × α)
  xname : String
  xunit : String
  yname : String
  yunit : String
  label : String

/-- a fit result: the fit function with the fitted parameters (as a `Func` whose range is the
    fit's x-range or else the span of the fitted data) and the data set it was fitted to -/
structure Fit (α : Type) where
  fn : Func α
  data : DataSet α

inductive Binning (α : Type) where
  | edges (es : List α)
  | count (n : Nat) (range : Option (α × α))

structure Hist (α : Type) where
  samples : List α
  binning : Binning α
  label : String
  weights : Option (List α)   -- `weights=[...]`, one weight per sample
  density : Bool              -- `density=True`

inductive Obj (α : Type) where
  | dataset (d : DataSet α)
  | function (f : Func α)
  | fit (r : Fit α)
  | histogram (h : Hist α)

structure Plot (α : Type) where
  objs : List (Obj α)
  errorBars : Bool
  residuals : Bool
  legend : Bool
  xname : String      -- overrides, "" = not set
  xunit : String
  yname : String
  yunit : String
  title : String
  xrange : Option (α × α)   -- `plot.xrange = ...`

inductive Ax where
  | main | res
  deriving DecidableEq, Repr, Inhabited

inductive DrawCmd (α : Type) where
  | points (ax : Ax) (xs ys : List α)
  | errorbars (ax : Ax) (xs ys yerr xerr : List α)
  | curve (xs ys : List α)
  | band (xs lo hi : List α)
  | bars (heights : List α) (edges : List α)
  | label (which : String) (text : String)
  | legend (texts : List String)
  deriving Inhabited

/-! ### data sets -/

namespace DataSet

/-- the boolean mask of the x-range, computed from the x values only -/
def mask (d : DataSet α) : Option (List Bool) :=
  d.range.map fun (lo, hi) => d.xs.map (inRange lo hi)

def sel (d : DataSet α) (l : List α) : List α :=
  match d.mask with
  | none => l
  | some m => maskBy m l

/-- what `xvalues / yvalues / xerr / yerr` return: each array indexed with the same mask -/
def vx (d : DataSet α) := d.sel d.xs
def vy (d : DataSet α) := d.sel d.ys
def vxerr (d : DataSet α) := d.sel d.xerr
def vyerr (d : DataSet α) := d.sel d.yerr

/-- `XYDataSetOnPlot.xrange`: the given range, else the span of *all* x values -/
def xrange (d : DataSet α) : Option (α × α) :=
  match d.range with
  | some r => some r
  | none => match minL d.xs, maxL d.xs with
    | some lo, some hi => some (lo, hi)
    | _, _ => none

/-- `XYDataSetOnPlot.show` -/
def draw (ax : Ax) (errorBars : Bool) (d : DataSet α) : List (DrawCmd α) :=
  if errorBars then [.errorbars ax d.vx d.vy d.vyerr d.vxerr] else [.points ax d.vx d.vy]

end DataSet

/-! ### functions -/

namespace Func

/-- value and uncertainty of the function at a plain number x (x itself carries no error) -/
def valErr (f : Func α) (x : α) : α × α :=
  let env := fun k => if k = 0 then x else f.env k
  let σ := fun k => if k = 0 then Num.ofNat 0 else f.σ k
  Expr.propagate env σ f.ρ f.f

/-- the sampling range: the function's own, else the plot's x-domain (`__prepare_fig`) -/
def useRange (f : Func α) (dom : Option (α × α)) : Option (α × α) :=
  match f.range with
  | some r => some r
  | none => dom

def xsOn (r : α × α) : List α := linspace r.1 r.2 Gen.plotCurvePoints

/-- `FunctionOnPlot.show`: the curve on 100 points and, with error bars on, the band y ± err -/
def draw (errorBars : Bool) (dom : Option (α × α)) (f : Func α) : List (DrawCmd α) :=
  match f.useRange dom with
  | none => []
  | some r =>
    let xs := xsOn r
    let ve := xs.map f.valErr
    let ys := ve.map (·.1)
    let lo := ve.map fun (y, e) => Num.sub y e
    let hi := ve.map fun (y, e) => Num.add y e
    .curve xs ys :: (if errorBars then [.band xs lo hi] else [])

end Func

/-! ### fit results -/

namespace Fit

/-- index used for the y measurement of a residual (any index not used by the fit function) -/
def yVar : Nat := 1000000

/-- residual i = y_i - f(x_i): `dataset.ydata - result_func(dataset.xdata)`; x_i and y_i are
    measurements (with their uncertainties), the parameters are shared -/
def residual (r : Fit α) (x xe y ye : α) : α × α :=
  let env := fun k => if k = 0 then x else if k = yVar then y else r.fn.env k
  let σ := fun k => if k = 0 then xe else if k = yVar then ye else r.fn.σ k
  Expr.propagate env σ r.fn.ρ (.bin .sub (.var yVar) r.fn.f)

def zip4 : List α → List α → List α → List α → List (α × α × α × α)
  | a :: as, b :: bs, c :: cs, d :: ds => (a, b, c, d) :: zip4 as bs cs ds
  | _, _, _, _ => []

def residuals (r : Fit α) : List (α × α) :=
  (zip4 r.data.xs r.data.xerr r.data.ys r.data.yerr).map fun (x, xe, y, ye) => r.residual x xe y ye

/-- the data set on the residual axes: all the fitted data set's x values, the residuals -/
def residualSet (r : Fit α) : DataSet α :=
  { xs := r.data.xs, ys := r.residuals.map (·.1), xerr := r.data.xerr,
    yerr := r.residuals.map (·.2), range := none, xname := "", xunit := "", yname := "",
    yunit := "", label := r.fn.label }

/-- `XYFitResultOnPlot.show` -/
def draw (errorBars residuals : Bool) (r : Fit α) : List (DrawCmd α) :=
  r.fn.draw errorBars none ++ (if residuals then r.residualSet.draw .res errorBars else [])

end Fit

/-! ### histograms -/

namespace Hist

def countIn (last : Bool) (a b : α) (ss : List α) : Nat :=
  ss.countP fun s => Num.le a s && (if last then Num.le s b else Num.lt s b)

/-- `numpy.histogram` counts for given edges: bins are `[e_i, e_{i+1})`, the last one closed -/
def counts (ss : List α) : List α → List Nat
  | a :: b :: [] => [countIn true a b ss]
  | a :: b :: rest => countIn false a b ss :: counts ss (b :: rest)
  | _ => []

def edgesOf (ss : List α) : Binning α → List α
  | .edges es => es
  | .count n (some (lo, hi)) => linspace lo hi (n + 1)
  | .count n none =>
    match minL ss, maxL ss with
    | some lo, some hi => linspace lo hi (n + 1)
    | _, _ => []

def edges (h : Hist α) : List α := edgesOf h.samples h.binning

/-- `numpy.histogram(..., weights=w)`: the sum of the weights of the samples in one bin -/
def wsumIn (last : Bool) (a b : α) : List (α × α) → α
  | [] => Num.ofNat 0
  | (s, w) :: rest =>
    if Num.le a s && (if last then Num.le s b else Num.lt s b) then Num.add w (wsumIn last a b rest)
    else wsumIn last a b rest

/-- weighted counts for given edges: same bins as `counts` -/
def wcounts (sw : List (α × α)) : List α → List α
  | a :: b :: [] => [wsumIn true a b sw]
  | a :: b :: rest => wsumIn false a b sw :: wcounts sw (b :: rest)
  | _ => []

/-- `n.sum()` -/
def total : List α → α
  | [] => Num.ofNat 0
  | x :: xs => Num.add x (total xs)

/-- `np.diff(bin_edges)` -/
def widths : List α → List α
  | a :: b :: rest => Num.sub b a :: widths (b :: rest)
  | _ => []

/-- `density=True`: `n / db / n.sum()` -/
def densityOf (vals ws : List α) : List α :=
  List.zipWith (fun v w => Num.div (Num.div v w) (total vals)) vals ws

/-- the value of each bin before normalisation: the count of the samples in the bin, resp. the
    sum of their weights -/
def binValues (h : Hist α) : List α :=
  match h.weights with
  | none => (counts h.samples h.edges).map Num.ofNat
  | some ws => wcounts (h.samples.zip ws) h.edges

/-- the bar heights: the bin values, divided by (total · bin width) with `density=True` -/
def heights (h : Hist α) : List α :=
  if h.density then densityOf h.binValues (widths h.edges) else h.binValues

/-- the pair returned to the caller of `Plot.hist` -/
def returned (h : Hist α) : List α × List α := (h.heights, h.edges)

def draw (h : Hist α) : List (DrawCmd α) := [.bars h.heights h.edges]

def xrange (h : Hist α) : Option (α × α) :=
  match h.edges.head?, h.edges.getLast? with
  | some a, some b => some (a, b)
  | _, _ => none

end Hist

/-! ### the plot -/

namespace Obj

/-- `ObjectWithRange.xrange` of each object kind -/
def xrange : Obj α → Option (α × α)
  | dataset d => d.xrange
  | function f => f.range
  | fit r => r.fn.range
  | histogram h => h.xrange

/-- the draw commands of one object: they depend on the other objects only through `dom` -/
def draw (errorBars residuals : Bool) (dom : Option (α × α)) : Obj α → List (DrawCmd α)
  | dataset d => d.draw .main errorBars
  | function f => f.draw errorBars dom
  | fit r => r.draw errorBars residuals
  | histogram h => h.draw

/-- names/units offered for the axis labels (`XYObjectOnPlot` only: data sets and functions) -/
def xname : Obj α → String | dataset d => d.xname | function f => f.xname | _ => ""
def xunit : Obj α → String | dataset d => d.xunit | function f => f.xunit | _ => ""
def yname : Obj α → String | dataset d => d.yname | function f => f.yname | _ => ""
def yunit : Obj α → String | dataset d => d.yunit | function f => f.yunit | _ => ""

def legendLabel : Obj α → String
  | dataset d => d.label | function f => f.label | fit r => r.fn.label | histogram h => h.label

end Obj

/-- first non-empty string (`next((... for obj in objs if ...), "")`) -/
def firstNonEmpty : List String → String
  | [] => ""
  | s :: rest => if s = "" then firstNonEmpty rest else s

/-- an override wins, else the first object that has one -/
def pick (override : String) (offers : List String) : String :=
  if override = "" then firstNonEmpty offers else override

/-- `name + "[unit]"`, the bracket omitted when there is no unit -/
def axisLabel (name unit : String) : String := Gen.plotAxisLabel name unit

namespace Plot

/-- `Plot.xrange`: the range set on the plot, else (min of lows, max of highs) over the objects
    that have a range -/
def domain (p : Plot α) : Option (α × α) :=
  match p.xrange with
  | some r => some r
  | none =>
    let rs := p.objs.filterMap Obj.xrange
    match minL (rs.map (·.1)), maxL (rs.map (·.2)) with
    | some lo, some hi => some (lo, hi)
    | _, _ => none

def xlabel (p : Plot α) : String :=
  axisLabel (pick p.xname (p.objs.map Obj.xname)) (pick p.xunit (p.objs.map Obj.xunit))
def ylabel (p : Plot α) : String :=
  axisLabel (pick p.yname (p.objs.map Obj.yname)) (pick p.yunit (p.objs.map Obj.yunit))

def objectCmds (p : Plot α) : List (DrawCmd α) :=
  p.objs.flatMap (Obj.draw p.errorBars p.residuals p.domain)

def labelCmds (p : Plot α) : List (DrawCmd α) :=
  [.label "title" p.title, .label "x" p.xlabel, .label "y" p.ylabel] ++
  (if p.residuals then [.label "resx" p.xlabel, .label "resy" "residuals"] else []) ++
  (if p.legend then [.legend ((p.objs.map Obj.legendLabel).filter (· ≠ ""))] else [])

/-- `Plot.__prepare_fig` -/
def render (p : Plot α) : List (DrawCmd α) := p.objectCmds ++ p.labelCmds

end Plot
end QExPy.Plot

/-
  Formula trees and the derivative method
  (qexpy/data/operations.py: _evaluate_formula, differentiate,
   DerivativeEvaluator.__evaluate / __find_cov_terms, _find_source_measurement_ids).

  `eval` and `diff` interpret the *generated* tables `Gen.op1/op2/d1/d2`, so the
  theorems about them are statements about what operations.py says now.
-/
import QExPy.Num
import QExPy.Model.Ops
import QExPy.Generated.Ops

namespace QExPy

/-- A formula, unfolded down to source measurements (`var i`, one index per
    measurement *identity*) and numeric constants.  A DerivedValue operand is its
    own formula (both `_evaluate_formula` and `differentiate` recurse into
    `_formula`), so sharing shows up as repeated `var i`. -/
inductive Expr (α : Type) where
  | var (i : Nat)
  | const (c : α)
  | un (o : Op1) (a : Expr α)
  | bin (o : Op2) (a b : Expr α)
  deriving Repr, Inhabited

namespace Expr
variable {α : Type} [Num α]

/-- `_evaluate_formula` at the central values `env` -/
def eval (env : Nat → α) : Expr α → α
  | var i => env i
  | const c => c
  | un o a => Gen.op1 o (eval env a)
  | bin o a b => Gen.op2 o (eval env a) (eval env b)

/-- `differentiate(formula, m_k)`: MeasuredValue.derivative is the identity test,
    Constant.derivative is 0, DerivedValue.derivative applies the rule of its operator to
    the operands' *values* and *derivatives*. -/
def diff (env : Nat → α) (k : Nat) : Expr α → α
  | var i => if i = k then Num.ofNat 1 else Num.ofNat 0
  | const _ => Num.ofNat 0
  | un o a => Gen.d1 o (eval env a) (diff env k a)
  | bin o a b => Gen.d2 o (eval env a) (diff env k a) (eval env b) (diff env k b)

/-- `_find_source_measurement_ids`, as a duplicate-free list in first-occurrence order -/
def sources : Expr α → List Nat
  | var i => [i]
  | const _ => []
  | un _ a => sources a
  | bin _ a b => (sources a ++ sources b).eraseDups

/-- degree variants: `sind(x) = sin(x / 180 * pi)` etc. (generated argument rule) -/
def degOuter : DegOp → Op1
  | .sind => .sin | .cosd => .cos | .tand => .tan | .secd => .sec | .cscd => .csc | .cotd => .cot

def deg (o : DegOp) (a : Expr α) : Expr α :=
  -- the tree qexpy builds: (a / 180) * pi, then the radian operator
  un (degOuter o) (bin .mul (bin .div a (const (Num.ofNat 180))) (const Num.pi))

/-- `itertools.combinations(l, 2)` mapped through `f` and summed -/
def pairTerms (f : Nat → Nat → α) : List Nat → List α
  | [] => []
  | i :: rest => rest.map (f i) ++ pairTerms f rest

/-- the quantity under the square root in `DerivativeEvaluator.__evaluate`:
    Σ_i (σ_i ∂_i)² + Σ_{i<j, cov≠0} 2·cov_ij·∂_i·∂_j with cov_ij = ρ_ij σ_i σ_j -/
def quadTerms (env : Nat → α) (σ : Nat → α) (e : Expr α) (S : List Nat) : List α :=
  S.map fun i => Gen.quadTerm (σ i) (diff env i e)

def covTerm (env : Nat → α) (σ : Nat → α) (ρ : Nat → Nat → α) (e : Expr α) (i j : Nat) : α :=
  let cov := Gen.covOf (ρ i j) (σ i) (σ j)
  if Num.isZero cov then Num.ofNat 0
  else Gen.covYield cov (diff env i e) (diff env j e)

def resultSums (env σ : Nat → α) (ρ : Nat → Nat → α) (e : Expr α) (S : List Nat) : α :=
  Gen.combine (Num.sum (quadTerms env σ e S)) (Num.sum (pairTerms (covTerm env σ ρ e) S))

/-- (value, error) of a derived value under the derivative method -/
def propagate (env σ : Nat → α) (ρ : Nat → Nat → α) (e : Expr α) : α × α :=
  (eval env e, Gen.errOf (resultSums env σ ρ e (sources e)))

end Expr
end QExPy

/-
  `define_unit` / `clear_unit_definitions` as *requests* (C18, define/clear histories with faults).

  `define_unit(name, unit)` of qexpy/utils/units.py checks the name (`^[\w]+$`), parses the
  expression, and only then writes `UNIT_DEFINITIONS[name]`.  A request that fails either check
  raises and must leave the definitions exactly as they were (this is what the statement's
  "for all define/clear sequences" needs when a definition in the sequence is rejected).

  Core Lean only (linked into the driver).  The name test is modelled for ASCII names
  (letters, digits, underscore; non-empty) — the harness generates only ASCII requests.
-/
import QExPy.Model.Units
import QExPy.Model.UnitParse
namespace QExPy.U

/-- the name test of `define_unit` on ASCII text: `re.match(r"^[\w]+$", name)` -/
def nameOk (name : List Char) : Bool :=
  !name.isEmpty && name.all fun c => c.isAlphanum || c == '_'

/-- `define_unit(name, expr)`: `none` = the request raised (name or expression rejected) -/
def defineReq (defs : Defs) (name expr : List Char) : Option Defs :=
  if nameOk name then
    match parse expr with
    | some u => some (define defs name u)
    | none => none
  else none

/-- the definitions after the request, whether or not it raised -/
def defineStep (defs : Defs) (name expr : List Char) : Defs :=
  (defineReq defs name expr).getD defs

/-- one request of a define/clear history -/
inductive DefReq
  | define (name expr : List Char)
  | clear
  deriving Repr

/-- is the request accepted?  (does not depend on the current definitions) -/
def DefReq.accepted : DefReq → Bool
  | .define n e => nameOk n && (parse e).isSome
  | .clear => true

def stepReq (defs : Defs) : DefReq → Defs
  | .define n e => defineStep defs n e
  | .clear => []

/-- the definitions after a whole history of requests (rejected ones caught by the caller) -/
def runReqs (defs : Defs) (rs : List DefReq) : Defs := rs.foldl stepReq defs

end QExPy.U

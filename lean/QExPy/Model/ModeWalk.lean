/-
  The mode-and-confidence strategy (qexpy/utils/utils.py: find_mode_and_uncertainty).

  Counts are exact (`Nat`); the threshold test `count < confidence * number_of_samples` and the
  bin edges are generic over `Num` (binary64 in the driver, ℝ in the theorems).
  The histogram itself (`numpy.histogram(samples, bins=100)`) is an input.
  The three formulas of the function (loop test, bin centre, error) are the terms regenerated from
  the source on every run (`QExPy/Generated/MCWalk.lean`, translator section `mcwalk`); the walk
  (`loop`, `canGrow`, `stepAdd`) mirrors the statements, whose shape the same section checks.
-/
import QExPy.Num
import QExPy.FB
import QExPy.Generated.MCWalk

namespace QExPy
namespace ModeWalk

/-- `n.argmax()`: first index of the maximum (0 for an empty list) -/
def argmaxFrom : List Nat → (idx best bestIdx : Nat) → Nat
  | [], _, _, bestIdx => bestIdx
  | x :: xs, idx, best, bestIdx =>
    if best < x then argmaxFrom xs (idx + 1) x idx else argmaxFrom xs (idx + 1) best bestIdx

def argmax (n : List Nat) : Nat :=
  match n with
  | [] => 0
  | x :: xs => argmaxFrom xs 1 x 0

/-- `sum(n)` -/
def total (n : List Nat) : Nat := n.sum

/-- count of bin `i`; positions outside the histogram hold nothing -/
def at' (n : List Nat) (i : Nat) : Nat := n.getD i 0

/-- what one more step on each side of the mode adds: bins `imax − (k+1)` and `imax + (k+1)`,
    when they exist -/
def stepAdd (n : List Nat) (imax k : Nat) : Nat :=
  (if k + 1 ≤ imax then at' n (imax - (k + 1)) else 0) +
  (if imax + (k + 1) < n.length then at' n (imax + (k + 1)) else 0)

/-- the loop guard added by the fix: there is still a bin on at least one side
    (`low_idx > 0 or high_idx < len(n) - 1` with low_idx = imax − k, high_idx = imax + k) -/
def canGrow (n : List Nat) (imax k : Nat) : Bool :=
  decide (k < imax) || decide (imax + k + 1 < n.length)

/-- the `while` loop: `k` steps taken so far, `count` samples covered so far.
    `enough c` is `not (c < confidence * number_of_samples)`. -/
def loop (n : List Nat) (imax : Nat) (enough : Nat → Bool) : (fuel k count : Nat) → Nat × Nat
  | 0, k, count => (k, count)
  | fuel + 1, k, count =>
    if !enough count && canGrow n imax k then
      loop n imax enough fuel (k + 1) (count + stepAdd n imax k)
    else (k, count)

/-- (index of the fullest bin, number of bin widths walked).  `n.length` units of fuel are enough:
    after that many steps the guard `canGrow` is false. -/
def walk (n : List Nat) (enough : Nat → Bool) : Nat × Nat :=
  let imax := argmax n
  (imax, (loop n imax enough n.length 0 (at' n imax)).1)

/-- the set the property statement talks about: bins within `k` of `imax`, inside the histogram -/
def cover (n : List Nat) (imax k : Nat) : Nat :=
  (((List.range n.length).filter fun i => decide (imax ≤ i + k) && decide (i ≤ imax + k)).map
    (at' n)).sum

variable {α : Type} [Num α]

/-- `not (count < confidence * number_of_samples)` -/
def enoughAt (conf : α) (tot : Nat) (count : Nat) : Bool :=
  !Gen.modeNotEnough (Num.ofNat count : α) conf (Num.ofNat tot)

/-- `modeWalk n conf = (imax, k)` -/
def modeWalk (n : List Nat) (conf : α) : Nat × Nat :=
  walk n (enoughAt conf (total n))

/-- reported pair: centre of the fullest bin, `k` bin widths with width = (last edge − first edge)/len -/
def modeResult (n : List Nat) (edges : List α) (conf : α) : α × α :=
  let (imax, k) := modeWalk n conf
  let e (i : Nat) : α := edges.getD i (Num.ofNat 0)
  let value := Gen.modeValue (e imax) (e (imax + 1))
  (value, Gen.modeError (Num.ofNat k) (e 0) (e (edges.length - 1)) (Num.ofNat n.length))

end ModeWalk
end QExPy

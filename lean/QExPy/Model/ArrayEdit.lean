/-
  MeasurementArray edits as edits of a list of (value, uncertainty) pairs
  (qexpy/data/datasets.py: ExperimentalValueArray.__new__, append / insert / delete /
   __setitem__, sum / mean / std; qexpy/data/utils.py: wrap_in_value_array / wrap_in_measurement).

  Elements carry their own name and unit so that "every element is named name_index by its
  position and carries the array's unit" is a statement about the model, not a convention.
  Generic over `Num` (only the aggregates compute).
-/
import QExPy.Num
import QExPy.Model.Stats
import QExPy.Generated.Arrays

namespace QExPy.ArrayEdit
open QExPy

structure Elem (α : Type) where
  v : α
  e : α
  name : String
  unit : String

structure Arr (α : Type) where
  name : String
  unit : String
  elems : List (Elem α)

/-- one thing that `wrap_in_measurement` accepts -/
inductive Item (α : Type) where
  | num (c : α)            -- a real number: uncertainty 0
  | pair (v e : α)         -- a `(value, error)` tuple: goes through the Measurement constructor
  | meas (v e : α)         -- an existing measurement object
  | bad                    -- anything else (a string, a nested list, ...): TypeError

/-- what `wrap_in_value_array` accepts -/
inductive Operand (α : Type) where
  | one (x : Item α)
  | many (xs : List (Item α))
  | arr (xs : List (α × α))        -- another MeasurementArray

inductive Edit (α : Type) where
  | append (x : Operand α)
  | insert (i : Int) (x : Operand α)
  | delete (i : Int)
  | setItem (i : Int) (x : Item α)

variable {α : Type} [Num α]

def zero : α := Num.ofNat 0

/-- `name_index`: the format text regenerated from append / insert / delete / __setitem__
    (translator section `arrays`, which also compares those methods, the operator overloads and
    `wrap_in_measurement` / `wrap_in_value_array` with the shape this file mirrors) -/
def nameAt (name : String) (i : Nat) : String := Gen.arrNameAt name i

/-- `wrap_in_measurement`: the pair it stands for, `none` = an exception -/
def coerceItem : Item α → Option (α × α)
  | .num c => some (c, zero)
  | .pair v e => if Num.lt e zero then none else some (v, e)
  | .meas v e => some (v, e)
  | .bad => none

def coerceItems : List (Item α) → Option (List (α × α))
  | [] => some []
  | x :: xs =>
    match coerceItem x, coerceItems xs with
    | some p, some ps => some (p :: ps)
    | _, _ => none

/-- `wrap_in_value_array` -/
def coerce : Operand α → Option (List (α × α))
  | .one x => (coerceItem x).map fun p => [p]
  | .many xs => coerceItems xs
  | .arr ps => some ps

/-- names by position and one unit for every element (the loops at the end of append/insert) -/
def relabel (name unit : String) (ps : List (α × α)) : List (Elem α) :=
  ps.zipIdx.map fun (p, i) => ⟨p.1, p.2, nameAt name i, unit⟩

/-- names by position, units untouched (the loop at the end of delete) -/
def rename (name : String) (es : List (Elem α)) : List (Elem α) :=
  es.zipIdx.map fun (x, i) => { x with name := nameAt name i }

def pairs (a : Arr α) : List (α × α) := a.elems.map fun x => (x.v, x.e)

/-- the constructor: names `name_i` only when a name is given -/
def mk (name unit : String) (ps : List (α × α)) : Arr α :=
  ⟨name, unit, ps.zipIdx.map fun (p, i) => ⟨p.1, p.2, if name = "" then "" else nameAt name i, unit⟩⟩

/-- position of a Python index in a sequence of length `n`; `hi` is the largest valid index -/
def pos (n : Nat) (i : Int) (hi : Nat) : Option Nat :=
  if 0 ≤ i then (if i.toNat ≤ hi then some i.toNat else none)
  else if (-i).toNat ≤ n then some (n - (-i).toNat) else none

def append (a : Arr α) (x : Operand α) : Option (Arr α) :=
  match coerce x with
  | none => none
  | some ps => some { a with elems := relabel a.name a.unit (pairs a ++ ps) }

def insert (a : Arr α) (i : Int) (x : Operand α) : Option (Arr α) :=
  match coerce x with
  | none => none
  | some ps =>
    match pos a.elems.length i a.elems.length with
    | none => none
    | some k =>
      some { a with elems := relabel a.name a.unit ((pairs a).take k ++ ps ++ (pairs a).drop k) }

def delete (a : Arr α) (i : Int) : Option (Arr α) :=
  if a.elems.length = 0 then none else
  match pos a.elems.length i (a.elems.length - 1) with
  | none => none
  | some k => some { a with elems := rename a.name (a.elems.eraseIdx k) }

/-- `a[i] = x` (in place): a bare number replaces the value and keeps everything else; anything
    else replaces the element, which gets the array's unit and, for a named array, `name_i` -/
def setItem (a : Arr α) (i : Int) (x : Item α) : Option (Arr α) :=
  if a.elems.length = 0 then none else
  match pos a.elems.length i (a.elems.length - 1) with
  | none => none
  | some k =>
    match x with
    | .num c => some { a with elems := a.elems.modify k fun el => { el with v := c } }
    | x =>
      match coerceItem x with
      | none => none
      | some p =>
        let el : Elem α := ⟨p.1, p.2, if a.name = "" then "" else nameAt a.name k, a.unit⟩
        some { a with elems := a.elems.set k el }

def edit (a : Arr α) : Edit α → Option (Arr α)
  | .append x => append a x
  | .insert i x => insert a i x
  | .delete i => delete a i
  | .setItem i x => setItem a i x

/-- a history; a rejected edit leaves the array as it was -/
def run (a : Arr α) (es : List (Edit α)) : Arr α :=
  es.foldl (fun a e => (edit a e).getD a) a

def values (a : Arr α) : List α := a.elems.map (·.v)
def errors (a : Arr α) : List α := a.elems.map (·.e)

/-- `a.sum()`, `a.mean()`, `a.std()` -/
def sum (a : Arr α) : α × α := Stats.sumPair (values a) (errors a)
def mean (a : Arr α) : α × α := Stats.meanPair (values a)
def std (a : Arr α) : α := Stats.std1 (values a)

end QExPy.ArrayEdit

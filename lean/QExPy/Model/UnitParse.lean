/-
  Exact model of the unit-string parser of qexpy/utils/units.py (C12, C13):
    scan (what re.fullmatch + finditer do for the tokeniser patterns)  →  raw tokens
    → per-token processing (brackets parsed recursively, symbol^power grouped)
    → implicit-multiplication grouping → two-stack precedence parser → tree evaluation.
  Plus the reference recursive-descent parser `refParse` written from the grammar of the
  property statement, which is what the theorems compare the code's algorithm with.
  Core Lean only.

  The scanner is hand-written for the pattern texts pinned by `C12_scanner_pins_patterns`:
    token    [a-zA-Z]+(\^-?[0-9]+|\^\(-?[0-9]+/[0-9]+\))?|/|\*|\(([^()]|\^\(-?[0-9]+/[0-9]+\))*\)
    validity (token)+  with re.fullmatch
  For these patterns a left-to-right maximal-munch scan that fails when no token starts at the
  current position accepts exactly the strings `re.fullmatch` accepts, and yields the token
  sequence `finditer` yields (letters and digits are matched greedily and nothing after them
  can make the regex engine give characters back; the alternatives start with different
  characters).  That claim about the regex engine is tied by the correspondence run
  (exhaustive over short strings in the thorough tier), not proved.
-/
import QExPy.Model.Units
namespace QExPy.U

def isAl (c : Char) : Bool := ('a' ≤ c && c ≤ 'z') || ('A' ≤ c && c ≤ 'Z')
def isDg (c : Char) : Bool := '0' ≤ c && c ≤ '9'

/-- raw tokens: what `finditer` returns, as text -/
inductive Raw
  | sym (s : List Char)               -- [a-zA-Z]+
  | pw (s e : List Char)              -- [a-zA-Z]+ '^' e,  e = -?[0-9]+  or  (-?[0-9]+/[0-9]+)
  | mul | div
  | brk (content : List Char)         -- '(' content ')'
  deriving Repr, DecidableEq

def Raw.text : Raw → List Char
  | .sym s => s
  | .pw s e => s ++ '^' :: e
  | .mul => ['*']
  | .div => ['/']
  | .brk c => '(' :: (c ++ [')'])

/-- `-?[0-9]+` at the head: (matched text, rest) -/
def scanInt (cs : List Char) : Option (List Char × List Char) :=
  match cs with
  | '-' :: r =>
    let ds := r.takeWhile isDg
    if ds.isEmpty then none else some ('-' :: ds, r.dropWhile isDg)
  | _ =>
    let ds := cs.takeWhile isDg
    if ds.isEmpty then none else some (ds, cs.dropWhile isDg)

/-- `\(-?[0-9]+/[0-9]+\)` at the head: (matched text incl. brackets, rest) -/
def scanFrac (cs : List Char) : Option (List Char × List Char) :=
  match cs with
  | '(' :: r =>
    match scanInt r with
    | some (n, '/' :: r2) =>
      let ds := r2.takeWhile isDg
      match ds.isEmpty, r2.dropWhile isDg with
      | false, ')' :: r3 => some ('(' :: (n ++ '/' :: ds ++ [')']), r3)
      | _, _ => none
    | _ => none
  | _ => none

/-- the optional power after a run of letters: `\^-?[0-9]+` first, then the bracketed fraction -/
def scanPow (cs : List Char) : Option (List Char × List Char) :=
  match cs with
  | '^' :: r =>
    match scanInt r with
    | some x => some x
    | none => scanFrac r
  | _ => none

/-- content of a bracket token after the opening bracket: `([^()]|\^\(-?[0-9]+/[0-9]+\))*\)`;
    returns (content, rest after the closing bracket) -/
def scanBrk : Nat → List Char → Option (List Char × List Char)
  | 0, _ => none
  | _ + 1, [] => none
  | _ + 1, ')' :: r => some ([], r)
  | _ + 1, '(' :: _ => none
  | f + 1, '^' :: '(' :: r =>
    match scanFrac ('(' :: r) with
    | some (t, r2) => (scanBrk f r2).map fun (c, r3) => ('^' :: t ++ c, r3)
    | none => none
  | f + 1, c :: r => (scanBrk f r).map fun (cs, r2) => (c :: cs, r2)

/-- one token at the head (maximal munch); `brackets = false` inside a bracket -/
def scanTok (brackets : Bool) (cs : List Char) : Option (Raw × List Char) :=
  match cs with
  | [] => none
  | '*' :: r => some (.mul, r)
  | '/' :: r => some (.div, r)
  | '(' :: r =>
    if brackets then (scanBrk (r.length + 1) r).map fun (c, r2) => (.brk c, r2) else none
  | c :: _ =>
    if isAl c then
      let s := cs.takeWhile isAl
      let r := cs.dropWhile isAl
      match scanPow r with
      | some (e, r2) => some (.pw s e, r2)
      | none => some (.sym s, r)
    else none

/-- the whole string as tokens, or `none` (= the validity check fails) -/
def scan (brackets : Bool) : Nat → List Char → Option (List Raw)
  | _, [] => some []
  | 0, _ => none
  | f + 1, cs =>
    match scanTok brackets cs with
    | none => none
    | some (t, r) => (scan brackets f r).map (t :: ·)

/-! ### tokens after per-token processing -/

inductive Tok
  | sym (s : List Char)
  | pw (s e : List Char)      -- the list [s, "^", e]
  | mul | div
  | one                        -- the bare numerator "1"
  | grp (ts : List Tok)
  deriving Repr

def Tok.isOp : Tok → Bool
  | .mul => true
  | .div => true
  | _ => false

/-- implicit-multiplication grouping; `acc` is the reversed `tokens_list` -/
def groupAux : List Tok → List Tok → Bool → List Tok
  | [], acc, _ => acc.reverse
  | t :: ts, acc, true => groupAux ts (t :: acc) false
  | t :: ts, acc, false =>
    if t.isOp then groupAux ts (t :: acc) true
    else match acc with
      | last :: acc' => groupAux ts (.grp [last, .mul, t] :: acc') false
      | [] => groupAux ts [t] false   -- unreachable: pre = false only after a push

def group (ts : List Tok) : List Tok := groupAux ts [] true

def replaceDot (cs : List Char) : List Char :=
  match Gen.lexDotFrom.toList, Gen.lexDotTo.toList with
  | [a], [b] => cs.map fun c => if c = a then b else c
  | _, _ => cs

/-- `startswith("1/")`: strip the bare numerator -/
def stripOne (cs : List Char) : Bool × List Char :=
  match cs with
  | '1' :: '/' :: r => (true, '/' :: r)
  | _ => (false, cs)

/-- `__parse_unit_string_to_list` on a string that may not contain bracket tokens -/
def lexFlat (cs : List Char) : Option (List Tok) := do
  let cs := replaceDot cs
  let (bare, cs) := stripOne cs
  let rs ← scan false (cs.length + 1) cs
  if rs.isEmpty then none
  let ts ← rs.mapM fun r =>
    match r with
    | .sym s => some (Tok.sym s)
    | .pw s e => some (Tok.pw s e)
    | .mul => some Tok.mul
    | .div => some Tok.div
    | .brk _ => none
  pure (group ((if bare then [Tok.one] else []) ++ ts))

/-- `__parse_unit_string_to_list` -/
def lexTop (cs : List Char) : Option (List Tok) := do
  let cs := replaceDot cs
  let (bare, cs) := stripOne cs
  let rs ← scan true (cs.length + 1) cs
  if rs.isEmpty then none
  let ts ← rs.mapM fun r =>
    match r with
    | .sym s => some (Tok.sym s)
    | .pw s e => some (Tok.pw s e)
    | .mul => some Tok.mul
    | .div => some Tok.div
    | .brk c => (lexFlat c).map Tok.grp
  pure (group ((if bare then [Tok.one] else []) ++ ts))

/-! ### two-stack precedence parser -/

inductive Tree
  | leaf (s : List Char)
  | one
  | pw (s e : List Char)
  | bin (isMul : Bool) (l r : Tree)
  deriving Repr, DecidableEq

def precOf (k : String) : Option Nat := Gen.precTable.lookup k

/-- precedence of an operator on the stack; the empty model stack is the bottom marker -/
def precTop : List Bool → Option Nat
  | [] => precOf Gen.precBase
  | true :: _ => precOf "*"
  | false :: _ => precOf "/"

/-- `__construct_sub_tree_and_push_to_operand_stack`; `none` = IndexError -/
def reduce : List Tree → List Bool → Option (List Tree × List Bool)
  | r :: l :: rest, o :: os => some (.bin o l r :: rest, os)
  | _, _ => none

def finish : Nat → List Tree → List Bool → Option (List Tree)
  | _, operands, [] => some operands
  | 0, _, _ => none
  | f + 1, operands, os =>
    match reduce operands os with
    | some (a, b) => finish f a b
    | none => none

/-- one operator token: push when it outranks the top of the operator stack, otherwise reduce
    first; `none` = IndexError -/
def opStep (o : Bool) (operands : List Tree) (operators : List Bool) :
    Option (List Tree × List Bool) :=
  match precOf (if o then "*" else "/"), precTop operators with
  | some p, some q =>
    if p > q then some (operands, o :: operators)
    else match reduce operands operators with
      | some (a, b) => some (a, o :: b)
      | none => none
  | _, _ => none

/-- the nested list [s, "^", e]: "^" is pushed iff it outranks the bottom marker -/
def pwOk : Bool :=
  match precOf "^", precOf Gen.precBase with
  | some p, some b => p > b
  | _, _ => false

mutual
/-- an operand token as a tree: a symbol, the nested list [s, "^", e], the bare numerator, or
    a grouped sub-list (parsed recursively); `none` for operators and for failing sub-lists -/
def tokVal : Tok → Option Tree
  | .sym s => some (.leaf s)
  | .pw s e => if pwOk then some (.pw s e) else none
  | .one => some .one
  | .grp g => twoStackAux g [] []
  | .mul => none
  | .div => none
/-- `__construct_expression_tree_with_list`; stacks have their top at the head -/
def twoStackAux : List Tok → List Tree → List Bool → Option Tree
  | [], operands, operators =>
    match finish operators.length operands operators with
    | some ops => ops.getLast?          -- `operand_stack[0]`: the bottom of the stack
    | none => none
  | .mul :: ts, operands, operators =>
    match opStep true operands operators with
    | some (a, b) => twoStackAux ts a b
    | none => none
  | .div :: ts, operands, operators =>
    match opStep false operands operators with
    | some (a, b) => twoStackAux ts a b
    | none => none
  | t :: ts, operands, operators =>
    match tokVal t with
    | some v => twoStackAux ts (v :: operands) operators
    | none => none
end

def twoStack (ts : List Tok) : Option Tree := twoStackAux ts [] []

/-! ### tree evaluation -/

def digitsVal (ds : List Char) : Nat := ds.foldl (fun n c => 10 * n + (c.toNat - 48)) 0

def intVal : List Char → Int
  | '-' :: ds => - (digitsVal ds : Int)
  | ds => (digitsVal ds : Int)

/-- `__power_str2num`: "-2" ↦ -2, "(3/2)" ↦ 3/2; `none` = ZeroDivisionError -/
def powerVal (e : List Char) : Option Rat :=
  match e with
  | '(' :: r =>
    let body := r.takeWhile (· != ')')
    let n := body.takeWhile (· != '/')
    let d := (body.dropWhile (· != '/')).drop 1
    let dv := digitsVal d
    if dv = 0 then none else some ((intVal n : Rat) / (dv : Rat))
  | _ => some (intVal e : Rat)

/-- `__evaluate_unit_tree` -/
def evalTree : Tree → Option Units
  | .pw s e => (powerVal e).map fun q => [(s, q)]
  | .leaf s => some [(s, 1)]
  | .one => some []
  | .bin isMul l r => do
    let a ← evalTree l
    let b ← evalTree r
    pure (merge a b (if isMul then 1 else -1))

/-- `parse_unit_string`; `none` = the call raises -/
def parse (cs : List Char) : Option Units := do
  let ts ← lexTop cs
  let t ← twoStack ts
  evalTree t

/-! ### reference grammar (the specification of C12)

  expr   := ['1' '/' term] ... written as:  expr := term (('*'|'/') term)*
  term   := factor+                      (juxtaposition binds tighter than * and /)
  factor := SYMBOL | SYMBOL '^' POWER | '(' expr ')' | '1' (only as the bare numerator, which
            the scanner produces only at the very start, before '/')
  '*' and '/' associate to the left.  Input: tokens *before* implicit-multiplication
  grouping, brackets as nested token lists.
-/

inductive UTok
  | sym (s : List Char)
  | pw (s e : List Char)
  | mul | div | one
  | par (ts : List UTok)
  deriving Repr

mutual
/-- apply the grouping pass at every level (what the recursive tokeniser does) -/
def convTok : UTok → Tok
  | .sym s => .sym s
  | .pw s e => .pw s e
  | .mul => .mul
  | .div => .div
  | .one => .one
  | .par ts => .grp (group (conv ts))
def conv : List UTok → List Tok
  | [] => []
  | t :: r => convTok t :: conv r
end

def groupAll (ts : List UTok) : List Tok := group (conv ts)

/-- a factor already read, or an explicit operator -/
inductive Item
  | op (isMul : Bool)
  | val (t : Tree)
  deriving Repr

/-- `expr := term (op term)*`, `term := factor+` read left to right over items:
    `done` = (expression so far, pending operator), `cur` = product of the current term -/
def asm : Option (Tree × Bool) → Option Tree → List Item → Option Tree
  | done, some c, [] =>
    match done with
    | none => some c
    | some (e, po) => some (.bin po e c)
  | _, none, [] => none                       -- empty input or dangling operator
  | done, cur, .val t :: r =>
    match cur with
    | none => asm done (some t) r
    | some c => asm done (some (.bin true c t)) r     -- juxtaposition
  | _, none, .op _ :: _ => none               -- leading or doubled operator
  | done, some c, .op o :: r =>
    match done with
    | none => asm (some (c, o)) none r
    | some (e, po) => asm (some (.bin po e c, o)) none r   -- left to right

mutual
/-- factor := SYMBOL | SYMBOL^POWER | '1' | '(' expr ')' -/
def refItem : UTok → Option Item
  | .sym s => some (.val (.leaf s))
  | .pw s e => some (.val (.pw s e))
  | .one => some (.val .one)
  | .mul => some (.op true)
  | .div => some (.op false)
  | .par ts =>
    match refItems ts with
    | some is => (asm none none is).map .val
    | none => none
def refItems : List UTok → Option (List Item)
  | [] => some []
  | t :: r =>
    match refItem t, refItems r with
    | some i, some is => some (i :: is)
    | _, _ => none
end

/-- the reference parser: `none` = not a sentence of the grammar -/
def refExpr (ts : List UTok) : Option Tree :=
  match refItems ts with
  | some is => asm none none is
  | none => none


/-- the tokeniser without the grouping pass, brackets as nested lists: input of `refExpr` -/
def rawFlat (cs : List Char) : Option (List UTok) := do
  let cs := replaceDot cs
  let (bare, cs) := stripOne cs
  let rs ← scan false (cs.length + 1) cs
  if rs.isEmpty then none
  let ts ← rs.mapM fun r =>
    match r with
    | .sym s => some (UTok.sym s)
    | .pw s e => some (UTok.pw s e)
    | .mul => some UTok.mul
    | .div => some UTok.div
    | .brk _ => none
  pure ((if bare then [UTok.one] else []) ++ ts)

def rawTop (cs : List Char) : Option (List UTok) := do
  let cs := replaceDot cs
  let (bare, cs) := stripOne cs
  let rs ← scan true (cs.length + 1) cs
  if rs.isEmpty then none
  let ts ← rs.mapM fun r =>
    match r with
    | .sym s => some (UTok.sym s)
    | .pw s e => some (UTok.pw s e)
    | .mul => some UTok.mul
    | .div => some UTok.div
    | .brk c => (rawFlat c).map UTok.par
  pure ((if bare then [UTok.one] else []) ++ ts)

/-- the specification of `parse`: tokenise, read with the reference grammar, evaluate -/
def refParse (cs : List Char) : Option Units := do
  let ts ← rawTop cs
  let t ← refExpr ts
  evalTree t

end QExPy.U

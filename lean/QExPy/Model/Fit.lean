/-
  Fits (qexpy/fitting/fitting.py): x-range selection, the weighted least-squares problem
  that `numpy.polyfit` / `scipy.optimize.curve_fit` are asked to solve, and the fit result
  (fit function, residuals, chi-squared, correlations).

  `numpy.polyfit` and `scipy.optimize.curve_fit` themselves are NOT modelled: the functions
  below are the *optimality conditions* (normal equations, gradient of the objective, the
  covariance convention) against which the parameters they return are certified, and which
  the theorems in Props/C06.lean show to characterise the weighted least-squares optimum.

  Generic over `Num`: run with `FB`/`Float` by the driver, proved about with `ℝ`.
  Vectors and matrices are index functions `Nat → α`, `Nat → Nat → α` with explicit sizes,
  sums are Python's left-to-right `sum`.
-/
import QExPy.Model.FitBase
import QExPy.Generated.Fitters

namespace QExPy.Fit
variable {α : Type} [Num α]

/-- Σ_{i<n} f i, left to right starting from 0 -/
def sumN (n : Nat) (f : Nat → α) : α := Num.sum ((List.range n).map f)

/-- one data point: abscissa, ordinate and their uncertainties (0 = none given) -/
structure Pt (α : Type) where
  x : α
  y : α
  sx : α
  sy : α
  deriving Inhabited

/-! ### x-range selection (`fit_to_xy_dataset`, the boolean mask) -/

/-- `(xrange[0] <= xdata) & (xdata < xrange[1])` -/
def inRange (lo hi : α) (p : Pt α) : Bool := Num.le lo p.x && Num.lt p.x hi

/-- the points that enter the fit: x and y (and their uncertainties) are selected together
    and keep their order -/
def select (lo hi : α) (d : List (Pt α)) : List (Pt α) := d.filter (inRange lo hi)

/-- `yerr = y_to_fit.errors if any(err > 0 for err in y_to_fit.errors) else None` -/
def hasYerr (d : List (Pt α)) : Bool := d.any fun p => Num.lt (Num.ofNat 0) p.sy

/-- `if any(err > 0 for err in xdata.errors)` -/
def hasXerr (d : List (Pt α)) : Bool := d.any fun p => Num.lt (Num.ofNat 0) p.sx

/-! ### linear (polynomial) least squares -/

/-- x^k by repeated multiplication -/
def npow (x : α) : Nat → α
  | 0 => Num.ofNat 1
  | k + 1 => Num.mul (npow x k) x

/-- design matrix of a degree-`d` polynomial fit, highest power first (the order in which
    `numpy.polyfit` returns the coefficients): column `k` of row `i` is `x_i^(d-k)` -/
def design (d : Nat) (x : Nat → α) (i k : Nat) : α := npow (x i) (d - k)

/-- `(A p)_i` for an `n × m` matrix -/
def pred (m : Nat) (A : Nat → Nat → α) (p : Nat → α) (i : Nat) : α :=
  sumN m fun k => Num.mul (A i k) (p k)

/-- `y_i − (A p)_i` -/
def resid (m : Nat) (A : Nat → Nat → α) (y p : Nat → α) (i : Nat) : α :=
  Num.sub (y i) (pred m A p i)

/-- the weighted least-squares objective `S(p) = Σ_i ((y_i − (A p)_i)/s_i)²`
    (`s_i = σ_yi`, or 1 for every point when no y-uncertainty is given) -/
def objective (n m : Nat) (A : Nat → Nat → α) (s y p : Nat → α) : α :=
  sumN n fun i => Num.sq (Num.div (resid m A y p i) (s i))

/-- component `k` of `AᵀW(y − A p)`, `W = diag(1/s_i²)`: the residual of the weighted
    normal equations `(AᵀWA) p = AᵀW y` -/
def normalRes (n m : Nat) (A : Nat → Nat → α) (s y p : Nat → α) (k : Nat) : α :=
  sumN n fun i => Num.div (Num.mul (A i k) (resid m A y p i)) (Num.sq (s i))

/-- `(AᵀWA)_{kl}` -/
def normalMat (n : Nat) (A : Nat → Nat → α) (s : Nat → α) (k l : Nat) : α :=
  sumN n fun i => Num.div (Num.mul (A i k) (A i l)) (Num.sq (s i))

/-- the scale factor of `numpy.polyfit(cov=True)`: `S(p) / (n − m)` -/
def polyCovFactor (n m : Nat) (A : Nat → Nat → α) (s y p : Nat → α) : α :=
  Num.div (objective n m A s y p) (Num.ofNat (n - m))

/-- "C is the residual-scaled covariance": `(AᵀWA) C − fac·I`, entry (k,l) -/
def covRes (n m : Nat) (A : Nat → Nat → α) (s : Nat → α) (fac : α) (C : Nat → Nat → α)
    (k l : Nat) : α :=
  Num.sub (sumN m fun j => Num.mul (normalMat n A s k j) (C j l))
    (if k = l then fac else Num.ofNat 0)

/-! ### non-polynomial models: the formula of the model is the generated `fitRule` (or a
    user formula), a tree in the variables `0..m-1` (parameters) and `m` (the abscissa) -/

/-- the model as a formula in the parameter variables and the x variable -/
def modelExpr (model : FitModel) (m : Nat) : Expr α :=
  Gen.fitRule model (Expr.var m) ((List.range m).map Expr.var)

/-- variables `k < m` are the parameters, variable `m` is `x` (nothing else occurs) -/
def envOf (m : Nat) (p : Nat → α) (x : α) : Nat → α :=
  fun k => if k < m then p k else if k = m then x else Num.ofNat 0

/-- `f(x; p)` -/
def fval (e : Expr α) (m : Nat) (p : Nat → α) (x : α) : α := Expr.eval (envOf m p x) e

/-- `∂f/∂p_k (x; p)` -/
def fgrad (e : Expr α) (m : Nat) (p : Nat → α) (x : α) (k : Nat) : α :=
  Expr.diff (envOf m p x) k e

/-- `∂f/∂x (x; p)`: the slope of the model curve at the abscissa `x` -/
def fslope (e : Expr α) (m : Nat) (p : Nat → α) (x : α) : α := Expr.diff (envOf m p x) m e

/-- effective variance of a point: `s² = σ_y² + (f'(x; p₁)·σ_x)²`, the slope taken
    *at the data point* `x`, `p₁` the first-pass optimum -/
def effVar (e : Expr α) (m : Nat) (p1 : Nat → α) (pt : Pt α) : α :=
  Num.add (Num.sq pt.sy) (Num.sq (Num.mul pt.sx (fslope e m p1 pt.x)))

/-- the objective `S(p) = Σ_i ((y_i − f(x_i; p))/s_i)²` -/
def objectiveNL (e : Expr α) (n m : Nat) (x y s : Nat → α) (p : Nat → α) : α :=
  sumN n fun i => Num.sq (Num.div (Num.sub (y i) (fval e m p (x i))) (s i))

/-- component `k` of `JᵀW r`: `Σ_i J_ik r_i / s_i²`; `∂S/∂p_k = −2` times this -/
def gradNL (e : Expr α) (n m : Nat) (x y s : Nat → α) (p : Nat → α) (k : Nat) : α :=
  sumN n fun i =>
    Num.div (Num.mul (fgrad e m p (x i) k) (Num.sub (y i) (fval e m p (x i)))) (Num.sq (s i))

/-- `(JᵀWJ)_{kl}` at `p` -/
def jtwj (e : Expr α) (n m : Nat) (x s : Nat → α) (p : Nat → α) (k l : Nat) : α :=
  sumN n fun i => Num.div (Num.mul (fgrad e m p (x i) k) (fgrad e m p (x i) l)) (Num.sq (s i))

/-! ### the fit result (`XYFitResult`, `__correlate_fit_params`, `cov2corr`) -/

/-- what a fit returns: the model, the parameter values and ONE covariance matrix -/
structure FitResult (α : Type) where
  m : Nat
  f : Expr α → List (Expr α) → Expr α
  params : Nat → α
  cov : Nat → Nat → α

namespace FitResult

/-- parameter uncertainties: `perr = sqrt(diag(pcov))` -/
def perr (r : FitResult α) (k : Nat) : α := Num.sqrt (r.cov k k)

/-- the correlation registered between parameter objects `i ≠ j` by
    `set_covariance(p_i, p_j, cov_ij)`: `cov_ij / (σ_i σ_j)` -/
def regCorr (r : FitResult α) (i j : Nat) : α :=
  Num.div (r.cov i j) (Num.mul (r.perr i) (r.perr j))

/-- the reported correlation matrix `cov2corr(pcov) = pcov / outer(std, std)` -/
def corrMatrix (r : FitResult α) (i j : Nat) : α :=
  Num.div (r.cov i j) (Num.mul (Num.sqrt (r.cov i i)) (Num.sqrt (r.cov j j)))

/-- the formula `fit_function(x)` builds: the model applied to `x` and the parameter objects -/
def funExpr (r : FitResult α) (x : Expr α) : Expr α := r.f x ((List.range r.m).map Expr.var)

/-- `fit_function(x)` for a number `x`: (value, uncertainty) by the derivative method with the
    parameters' uncertainties and registered correlations -/
def fitFunction (r : FitResult α) (x : α) : α × α :=
  Expr.propagate r.params r.perr r.regCorr (r.funExpr (Expr.const x))

/-- the gradient of the model with respect to parameter `k` at `x` -/
def grad (r : FitResult α) (x : α) (k : Nat) : α :=
  Expr.diff r.params k (r.funExpr (Expr.const x))

/-- residual of data point `pt`: `y − fit_function(x)` (central value) -/
def residual (r : FitResult α) (pt : Pt α) : α := Num.sub pt.y (r.fitFunction pt.x).1

/-- chi-squared: `sum((res/err)**2 for res, err in zip(residuals, yerr) if err != 0)` -/
def chi2 (r : FitResult α) (d : List (Pt α)) : α :=
  Num.sum ((d.filter fun pt => !Num.isZero pt.sy).map fun pt =>
    Num.sq (Num.div (r.residual pt) pt.sy))

/-- residual as the library computes it, with its uncertainty: `ydata − fit_function(xdata)`
    where both are arrays of measurements (variable `m` = x_i, variable `m+1` = y_i) -/
def residualFull (r : FitResult α) (pt : Pt α) : α × α :=
  let env : Nat → α := fun k => if k < r.m then r.params k else if k = r.m then pt.x else pt.y
  let σ : Nat → α := fun k => if k < r.m then r.perr k else if k = r.m then pt.sx else pt.sy
  let ρ : Nat → Nat → α := fun i j =>
    if i < r.m ∧ j < r.m then r.regCorr i j else Num.ofNat 0
  Expr.propagate env σ ρ (Expr.bin .sub (Expr.var (r.m + 1)) (r.funExpr (Expr.var r.m)))

end FitResult
end QExPy.Fit

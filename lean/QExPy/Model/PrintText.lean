/-
  The thin string layer of C09: `render : Printed → String` (what printing.py's format strings
  produce from the structured form) and `parsePrinted : String → Option Printed` (how a printed
  text is read back as numbers).  The driver parses the implementation's raw text with
  `parsePrinted`, so the reading of the text is part of the Lean development
  (`C09_render_parse` is the round trip).  Core Lean only.
-/
import QExPy.Model.Printing

namespace QExPy.Printing

/-! ### digits -/

def digitChar (d : Nat) : Char := Char.ofNat (48 + d)

def isDig (c : Char) : Bool := decide (48 ≤ c.toNat) && decide (c.toNat ≤ 57)

def charVal (c : Char) : Nat := c.toNat - 48

/-- decimal digits of `n`, most significant first (`[0]` for 0) -/
def natDigits (n : Nat) : List Nat := if n < 10 then [n] else natDigits (n / 10) ++ [n % 10]
decreasing_by omega

/-- the last `d` decimal digits of `n`, zero padded -/
def lastDigits (n : Nat) : Nat → List Nat
  | 0 => []
  | d + 1 => lastDigits (n / 10) d ++ [n % 10]

def ofDigits (l : List Nat) : Nat := l.foldl (fun a d => 10 * a + d) 0

/-! ### rendering -/

/-- `'{:.{d}f}'` of the number `m · 10^-d`: sign, integer part, and `d` decimals -/
def numChars (m : Int) (d : Nat) : List Char :=
  (if m < 0 then ['-'] else []) ++ (natDigits (m.natAbs / 10 ^ d)).map digitChar ++
    (if d = 0 then [] else '.' :: (lastDigits m.natAbs d).map digitChar)

def intChars (z : Int) : List Char := numChars z 0

def pmChars (latex : Bool) : List Char := if latex then ['\\', 'p', 'm'] else ['+', '/', '-']

def tailChars : List Char := [')', ' ', '*', ' ', '1', '0', '^']

def renderChars (p : Printed) : List Char :=
  let es := if p.errBare then ['0'] else numChars p.mantE p.decE
  let core := numChars p.mantV p.decV ++ ' ' :: (pmChars p.latex ++ ' ' :: es)
  if p.sci then '(' :: (core ++ tailChars ++ intChars p.pow10) else core

def render (p : Printed) : String := String.ofList (renderChars p)

/-! ### reading back -/

def isNumChar (c : Char) : Bool := isDig c || c == '.' || c == '-'

/-- `l.span p` -/
def spanL (p : Char → Bool) : List Char → List Char × List Char
  | [] => ([], [])
  | c :: r => if p c then let (a, b) := spanL p r; (c :: a, b) else ([], c :: r)

def stripSign : List Char → Bool × List Char
  | '-' :: r => (true, r)
  | l => (false, l)

def signed (neg : Bool) (n : Nat) : Int := if neg then -(n : Int) else (n : Int)

/-- the unsigned part `ddd[.ddd]` of a token -/
def parseBody (neg : Bool) (body : List Char) : Option (Int × Nat) :=
  let (ip, rest) := spanL isDig body
  if ip = [] then none
  else match rest with
    | [] => some (signed neg (ofDigits (ip.map charVal)), 0)
    | '.' :: fr =>
        if fr ≠ [] ∧ fr.all isDig then
          some (signed neg (ofDigits ((ip ++ fr).map charVal)), fr.length)
        else none
    | _ => none

/-- a whole token `[-]ddd[.ddd]` → (mantissa, number of decimals) -/
def parseNum (l : List Char) : Option (Int × Nat) :=
  parseBody (stripSign l).1 (stripSign l).2

/-- the separator (plus-slash-minus or backslash-pm, between blanks) in front of the rest -/
def stripPm : List Char → Option (Bool × List Char)
  | ' ' :: '+' :: '/' :: '-' :: ' ' :: r => some (false, r)
  | ' ' :: '\\' :: 'p' :: 'm' :: ' ' :: r => some (true, r)
  | _ => none

def stripTail : List Char → Option (List Char)
  | ')' :: ' ' :: '*' :: ' ' :: '1' :: '0' :: '^' :: r => some r
  | _ => none

/-- value token, separator, uncertainty token; returns what follows -/
def parseCore (l : List Char) : Option ((Int × Nat) × Bool × (Int × Nat) × List Char) :=
  let (vs, r1) := spanL isNumChar l
  match parseNum vs, stripPm r1 with
  | some v, some (latex, r2) =>
      let (es, r3) := spanL isNumChar r2
      match parseNum es with
      | some e => some (v, latex, e, r3)
      | none => none
  | _, _ => none

def mkPrinted (v : Int × Nat) (latex : Bool) (e : Int × Nat) (sci : Bool) (pow : Int) : Printed :=
  { mantV := v.1, mantE := e.1, decV := v.2, decE := e.2, pow10 := pow,
    errBare := decide (e.1 = 0 ∧ e.2 = 0), sci := sci, latex := latex }

def parseChars (l : List Char) : Option Printed :=
  match l with
  | '(' :: r =>
      match parseCore r with
      | some (v, latex, e, r3) =>
          match stripTail r3 with
          | some r4 =>
              match parseNum r4 with
              | some (pow, 0) => some (mkPrinted v latex e true pow)
              | _ => none
          | none => none
      | none => none
  | _ =>
      match parseCore l with
      | some (v, latex, e, []) => some (mkPrinted v latex e false 0)
      | _ => none

def parsePrinted (s : String) : Option Printed := parseChars s.toList

end QExPy.Printing

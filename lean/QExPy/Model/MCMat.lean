/-
  Matrix vocabulary of the Monte Carlo model (core Lean only): list-of-rows matrices and the few
  numpy operations the "no correlations present" shortcut of
  qexpy/data/utils.py: correlate_samples may be written with.  Generated/MC.lean (the translated
  shortcut condition) is built from these; Model/MonteCarlo.lean uses the generated condition.
-/
import QExPy.Num

namespace QExPy
namespace MC
variable {α : Type} [Num α]

abbrev Mat (α : Type) := List (List α)

def zero : α := Num.ofNat 0
def one : α := Num.ofNat 1

/-- entry (i, j); out of range reads as 0 -/
def Mat.get (M : Mat α) (i j : Nat) : α := (M.getD i []).getD j zero

/-- n × n identity -/
def identity (n : Nat) : Mat α :=
  (List.range n).map fun i => (List.range n).map fun j => if i = j then one else zero

/-- `np.count_nonzero(R - np.diag(np.diagonal(R))) == 0` -/
def offDiagAllZero (R : Mat α) : Bool :=
  (List.range R.length).all fun i =>
    (List.range R.length).all fun j => i == j || Num.isZero (R.get i j)

/-! ### numpy vocabulary for the shortcut condition -/

/-- element-wise `A - B` -/
def msub (A B : Mat α) : Mat α := List.zipWith (List.zipWith Num.sub) A B

/-- `np.diag(np.diagonal(A))`: the diagonal of `A`, zeros elsewhere -/
def diagMat (A : Mat α) : Mat α :=
  (List.range A.length).map fun i => (List.range A.length).map fun j =>
    if i = j then A.get i i else zero

/-- `np.triu(A, 1)`: strictly upper triangle, zeros elsewhere -/
def triu1 (A : Mat α) : Mat α :=
  (List.range A.length).map fun i => (List.range A.length).map fun j =>
    if i < j then A.get i j else zero

/-- `np.tril(A, -1)`: strictly lower triangle, zeros elsewhere -/
def tril1 (A : Mat α) : Mat α :=
  (List.range A.length).map fun i => (List.range A.length).map fun j =>
    if j < i then A.get i j else zero

/-- `np.count_nonzero(A)` -/
def countNonzero (A : Mat α) : Nat :=
  (A.map fun row => (row.filter fun x => !Num.isZero x).length).sum

/-- `np.any(A)` -/
def anyNonzero (A : Mat α) : Bool := A.any fun row => row.any fun x => !Num.isZero x

/-- `np.sum(A)` (row by row; numpy's pairwise order is not modelled) -/
def sumAll (A : Mat α) : α := Num.sum (A.map Num.sum)

/-- `np.trace(A)` -/
def trace (A : Mat α) : α := Num.sum ((List.range A.length).map fun i => A.get i i)

/-- scalar `a == b` -/
def feq (a b : α) : Bool := Num.isZero (Num.sub a b)

/-- `np.array_equal(A, B)` / `(A == B).all()` -/
def matEq (A B : Mat α) : Bool :=
  A.length == B.length && (List.zipWith (fun ra rb =>
    ra.length == rb.length && (List.zipWith feq ra rb).all id) A B).all id

end MC
end QExPy

/-
  The session as a state machine (C05, C15): measurements, the correlation records in force,
  calculated quantities with their lazily memoised derivative result, the identity of their
  stored Monte Carlo simulation, and the error-method selection.

  qexpy/data/data.py: DerivedValue (value/error via __get_value_error_pair, error_method,
  reset_error_method, recalculate, derivative, mc), MeasuredValue setters;
  qexpy/data/operations.py: DerivativeEvaluator.evaluate (memo), MonteCarloEvaluator
  (regenerate_samples / clear), differentiate; qexpy/data/utils.py: MonteCarloSettings.sample_size.

  A calculated quantity's formula is kept unfolded down to measurements (`Expr`): an operand that
  is itself a calculated quantity contributes its own formula, evaluated at the CURRENT central
  values — no other quantity's cache is consulted (operations.py `_CentralValue`, checked by the
  translator).  Monte Carlo numbers are abstracted to the identity (`SimId`) of the stored
  simulation: two Monte Carlo reads agree iff they come from the same simulation.
-/
import QExPy.Model.Expr

namespace QExPy

inductive Method where
  | derivative | monteCarlo
  deriving DecidableEq, Repr, Inhabited

structure Node (α : Type) where
  formula : Expr α
  cacheD : Option (α × α) := none      -- DerivativeEvaluator.result
  sim : Option Nat := none             -- identity of MonteCarloEvaluator.raw_samples (none = empty)
  method : Option Method := none       -- none = ErrorMethod.AUTO (follow the global setting)
  size : Nat := 0                      -- per-quantity Monte Carlo sample size, 0 = global
  deriving Inhabited

structure World (α : Type) where
  vals : List α
  errs : List α
  corr : List (Nat × Nat × α)          -- records in force (latest first)
  nodes : List (Node α)
  globalMethod : Method := .derivative
  nextSim : Nat := 0
  deriving Inhabited

inductive Op (α : Type) where
  | setValue (i : Nat) (v : α)
  | setError (i : Nat) (e : α)
  | setRel (i : Nat) (r : α)            -- `m.relative_error = r`: the uncertainty becomes |value| * r
  | setCorr (i j : Nat) (r : α)
  | resetCorr
  | read (n : Nat)
  | readDeriv (n k : Nat)
  | recalc (n : Nat)
  | setGlobal (m : Method)
  | setMethod (n : Nat) (m : Method)
  | resetMethod (n : Nat)
  | setSize (n : Nat) (k : Nat)
  | touchMc (n : Nat)                   -- any access to `.mc` (draws a simulation if none is stored)
  deriving Inhabited

inductive Out (α : Type) where
  | ok
  | deriv (value error : α)            -- a derivative-method (value, error)
  | mc (sim : Nat)                     -- a Monte Carlo (value, error): functions of simulation `sim`
  | num (x : α)
  | none
  deriving Inhabited

namespace World
variable {α : Type} [Num α]

def env (w : World α) : Nat → α := fun i => w.vals.getD i (Num.ofNat 0)
def sig (w : World α) : Nat → α := fun i => w.errs.getD i (Num.ofNat 0)

def rho (w : World α) : Nat → Nat → α := fun i j =>
  match w.corr.find? (fun (a, b, _) => (a == i && b == j) || (a == j && b == i)) with
  | some (_, _, r) => r
  | none => Num.ofNat 0

/-- what determines every derivative-method result: formulas, values, uncertainties, correlations -/
structure Core (α : Type) where
  formulas : List (Expr α)
  vals : List α
  errs : List α
  corr : List (Nat × Nat × α)

def core (w : World α) : Core α :=
  ⟨w.nodes.map (·.formula), w.vals, w.errs, w.corr⟩

/-- the derivative-method result of node `n` computed afresh from the current state -/
def fresh (w : World α) (n : Nat) : α × α :=
  match w.nodes[n]? with
  | some nd => Expr.propagate w.env w.sig w.rho nd.formula
  | none => (Num.ofNat 0, Num.ofNat 0)

def effMethod (w : World α) (n : Nat) : Method :=
  match w.nodes[n]? with
  | some nd => nd.method.getD w.globalMethod
  | none => w.globalMethod

def modifyNode (w : World α) (n : Nat) (f : Node α → Node α) : World α :=
  { w with nodes := w.nodes.modify n f }

/-- make sure node `n` has a stored simulation (`regenerate_samples`) -/
def ensureSim (w : World α) (n : Nat) : World α × Nat :=
  match w.nodes[n]? with
  | some nd =>
    match nd.sim with
    | some s => (w, s)
    | none => ({ w with nodes := w.nodes.modify n (fun nd => { nd with sim := some w.nextSim }),
                         nextSim := w.nextSim + 1 }, w.nextSim)
  | none => (w, 0)

def step (w : World α) : Op α → World α × Out α
  | .setValue i v => ({ w with vals := w.vals.set i v }, .ok)
  | .setError i e => ({ w with errs := w.errs.set i e }, .ok)
  | .setRel i r => ({ w with errs := w.errs.set i (Num.mul (Num.abs (w.env i)) r) }, .ok)
  | .setCorr i j r => ({ w with corr := (i, j, r) :: w.corr }, .ok)
  | .resetCorr => ({ w with corr := [] }, .ok)
  | .read n =>
    match w.nodes[n]? with
    | none => (w, .none)
    | some nd =>
      match w.effMethod n with
      | .derivative =>
        match nd.cacheD with
        | some r => (w, .deriv r.1 r.2)
        | none =>
          let r := w.fresh n
          (w.modifyNode n fun nd => { nd with cacheD := some r }, .deriv r.1 r.2)
      | .monteCarlo =>
        let (w', s) := w.ensureSim n
        (w', .mc s)
  | .readDeriv n k =>
    match w.nodes[n]? with
    | none => (w, .none)
    | some nd => (w, .num (Expr.diff w.env k nd.formula))
  | .recalc n => (w.modifyNode n fun nd => { nd with cacheD := none, sim := none }, .ok)
  | .setGlobal m => ({ w with globalMethod := m }, .ok)
  | .setMethod n m => (w.modifyNode n fun nd => { nd with method := some m }, .ok)
  | .resetMethod n => (w.modifyNode n fun nd => { nd with method := none }, .ok)
  | .setSize n k =>
    -- `d.mc.sample_size = k`: the access to `.mc` draws if nothing is stored, the setter clears
    let (w', _) := w.ensureSim n
    (w'.modifyNode n fun nd => { nd with size := k, sim := none }, .ok)
  | .touchMc n => ((w.ensureSim n).1, .ok)

/-- run a history, collecting the outputs -/
def run (w : World α) : List (Op α) → World α × List (Out α)
  | [] => (w, [])
  | op :: ops =>
    let (w1, o) := w.step op
    let (w2, os) := w1.run ops
    (w2, o :: os)

end World
end QExPy

/-
  Exact discrete model of qexpy/utils/units.py — unit algebra, named compound units and the
  unit printer (C08, C13, C18).  Core Lean only (linked into the driver).

  A unit is an `OrderedDict symbol -> exponent`: here an association list in insertion order
  with exponents in ℚ (the code uses int / binary64; the harness keeps to exponents that are
  exact in binary64 or compares after `limit_denominator(10)`).  Symbols are `List Char`.
  Every function mirrors the function of the same name in units.py (after the `fix:` commits).
-/
import QExPy.Generated.Units
namespace QExPy.U

abbrev Sym := List Char
abbrev Units := List (Sym × Rat)
/-- UNIT_DEFINITIONS: name ↦ exponent map, in definition order (a Python dict) -/
abbrev Defs := List (Sym × Units)

/-- exponent of a symbol, 0 when absent (`dict.get(name, 0)`) -/
def expOf (u : Units) (s : Sym) : Rat :=
  match u with
  | [] => 0
  | (k, v) :: r => if k = s then v else expOf r s

def hasKey (u : Units) (s : Sym) : Bool :=
  match u with
  | [] => false
  | (k, _) :: r => if k = s then true else hasKey r s

/-- dimensional equality: zero entries are invisible -/
def Equiv (u v : Units) : Prop := ∀ s, expOf u s = expOf v s

/-- keys are unique (holds for every Python dict) -/
def WF (u : Units) : Prop := (u.map Prod.fst).Nodup

/-- `__update_unit_exponent_count_in_dict`: `d[s] = (d[s] if s in d else 0) + c`, in place -/
def upd (u : Units) (s : Sym) (c : Rat) : Units :=
  match u with
  | [] => [(s, c)]
  | (k, v) :: r => if k = s then (k, v + c) :: r else (k, v) :: upd r s c

/-- add every entry of `v` (scaled by `sg`) into `acc` -/
def merge (acc : Units) (v : Units) (sg : Rat) : Units :=
  match v with
  | [] => acc
  | (k, e) :: r => merge (upd acc k (sg * e)) r sg

/-- `__mul` -/
def mul (u v : Units) : Units := merge (merge [] u 1) v 1
/-- `__div` -/
def div (u v : Units) : Units := merge (merge [] u 1) v (-1)
/-- `__sqrt` -/
def sqrtU (u : Units) : Units := u.map fun (k, e) => (k, e / 2)
/-- `__neg` -/
def negU (u : Units) : Units := u

/-- `dict(a) == dict(b)`: same key set, same values (for key-unique lists) -/
def dictEq (u v : Units) : Bool :=
  u.length == v.length && u.all fun (k, e) => hasKey v k && expOf v k == e

/-- `__non_zero` and the filter of `operate_with_units`: drop zero exponents -/
def filterZero (u : Units) : Units := u.filter fun (_, e) => e != 0

/-- `__add_and_sub`: (result, mismatch warning issued) -/
def addSub (u v : Units) : Units × Bool :=
  if !u.isEmpty && !v.isEmpty && !dictEq (filterZero u) (filterZero v) then ([], true)
  else if u.isEmpty then (v, false) else (u, false)

/-- the constant-power path of `propagate_units` (no unpacking, no filter) -/
def powConst (u : Units) (k : Rat) : Units := u.map fun (s, e) => (s, e * k)

/-! ### named compound units -/

def lookupDef (defs : Defs) (s : Sym) : Option Units :=
  match defs with
  | [] => none
  | (n, d) :: r => if n = s then some d else lookupDef r s

/-- `UNIT_DEFINITIONS[name] = u`: replaces in place or appends (Python dict) -/
def define (defs : Defs) (name : Sym) (u : Units) : Defs :=
  match defs with
  | [] => [(name, u)]
  | (n, d) :: r => if n = name then (n, u) :: r else (n, d) :: define r name u

/-- `__unpack_unit(unit, count)` on a dict, with recursion fuel (`none` = RecursionError) -/
def unpackD (defs : Defs) : Nat → Units → Rat → Option Units
  | 0, _, _ => none
  | f + 1, u, c =>
    u.foldlM (fun acc (p : Sym × Rat) =>
      match lookupDef defs p.1 with
      | none => some (upd acc p.1 (p.2 * c))
      | some d => (unpackD defs f d (p.2 * c)).map fun un => merge acc un 1) []

/-- `__unpack_unit(unit)`; fuel `|defs| + 1` suffices for definitions without cycles -/
def unpack (defs : Defs) (u : Units) : Option Units := unpackD defs (defs.length + 1) u 1

/-- first loop of `__try_pack`: common ratio of `unit` to `pre_defined` (`none` = return 0) -/
def packRatio (d : Units) : Units → Rat → Option Rat
  | [], e => some e
  | (name, ex) :: r, e =>
    let pre := expOf d name
    if pre = 0 then none
    else if e ≠ 0 ∧ e ≠ ex / pre then none
    else packRatio d r (if e = 0 then ex / pre else e)

/-- `__try_pack(unit, pre_defined)`: the power of the compound `unit` is, or 0 -/
def tryPack (u d : Units) : Rat :=
  match packRatio d u 0 with
  | none => 0
  | some e => if d.all (fun (name, _) => expOf u name != 0) then e else 0

/-- the packing loop of `operate_with_units` / `construct_unit_string` -/
def firstPack (defs : Defs) (u : Units) : Option (Sym × Rat) :=
  match defs with
  | [] => none
  | (n, d) :: r => let k := tryPack u d; if k != 0 then some (n, k) else firstPack r u

def packOr (defs : Defs) (u : Units) : Units :=
  match firstPack defs u with
  | some (n, k) => [(n, k)]
  | none => u

inductive UFun | neg | addsub | mul | div | sqrt
  deriving DecidableEq, Repr

/-- the function a key of UNIT_OPERATIONS dispatches to (from the generated table) -/
def opFun (op : String) : Option UFun :=
  match Gen.unitOps.lookup op with
  | some "__neg" => some .neg
  | some "__add_and_sub" => some .addsub
  | some "__mul" => some .mul
  | some "__div" => some .div
  | some "__sqrt" => some .sqrt
  | _ => none

/-- `UNIT_OPERATIONS[op](*operands)`: result, warning; `none` = wrong number of operands -/
def applyFun (f : UFun) (ops : List Units) : Option (Units × Bool) :=
  match f, ops with
  | .neg, [a] => some (negU a, false)
  | .sqrt, [a] => some (sqrtU a, false)
  | .addsub, [a, b] => some (addSub a b)
  | .mul, [a, b] => some (mul a b, false)
  | .div, [a, b] => some (div a b, false)
  | _, _ => none

/-- `UNIT_OPERATIONS[operator](*operands) if operator in UNIT_OPERATIONS else {}` -/
def dispatch (op : String) (un : List Units) : Option (Units × Bool) :=
  match opFun op with
  | some f => applyFun f un
  | none => some ([], false)

/-- `operate_with_units(operator, *operands)`; `none` = the call raises -/
def operate (defs : Defs) (op : String) (ops : List Units) : Option (Units × Bool) :=
  match ops.mapM (unpack defs) with
  | none => none
  | some un =>
    match dispatch op un with
    | none => none
    | some rw => some (packOr defs (filterZero rw.1), rw.2)

/-! ### unit expression trees (what `propagate_units` sees) -/

inductive UTree
  | leaf (u : Units)            -- a measurement with unit `u` ([] = no unit)
  | const                       -- a plain number
  | un (op : String) (a : UTree)
  | bin (op : String) (a b : UTree)
  | powc (a : UTree) (k : Rat)   -- `a ** k`, k a constant

/-- `operate_with_units` behind the guard of `propagate_units`: every operand has a unit or is
    a Constant, otherwise the result has no unit -/
def guarded (defs : Defs) (op : String) (ops : List (Units × Bool × Nat)) (w : Nat) :
    Option (Units × Bool × Nat) :=
  if ops.all (fun r => !r.1.isEmpty || r.2.1) then
    match operate defs op (ops.map (·.1)) with
    | some (u, wn) => some (u, false, w + (if wn then 1 else 0))
    | none => none
  else some ([], false, w)

/-- (`_unit` of the value, is it a Constant, number of mismatch warnings); `none` = raises -/
def unitOf (defs : Defs) : UTree → Option (Units × Bool × Nat)
  | .leaf u => some (u, false, 0)
  | .const => some ([], true, 0)
  | .powc a k =>
    match unitOf defs a with
    | some (u, _, w) => some (powConst u k, false, w)
    | none => none
  | .un op a =>
    match unitOf defs a with
    | some ra => guarded defs op [ra] ra.2.2
    | none => none
  | .bin op a b =>
    match unitOf defs a, unitOf defs b with
    | some ra, some rb => guarded defs op [ra, rb] (ra.2.2 + rb.2.2)
    | _, _ => none

/-! ### dimensional analysis (the specification of C08 / C18) -/

def sumRat : List Rat → Rat
  | [] => 0
  | x :: r => x + sumRat r

/-- dimension of a symbol in base symbols; `rdefs` = definitions latest first, a definition
    may mention names defined before it -/
def dimSym : Defs → Sym → Sym → Rat
  | [], s, t => if s = t then 1 else 0
  | (n, d) :: older, s, t =>
    if s = n then sumRat (d.map fun (p : Sym × Rat) => p.2 * dimSym older p.1 t)
    else dimSym older s t

/-- dimension of a unit: exponent of base symbol `t` after expanding every defined name -/
def dimU (rdefs : Defs) (u : Units) (t : Sym) : Rat :=
  sumRat (u.map fun (p : Sym × Rat) => p.2 * dimSym rdefs p.1 t)

def isConstT : UTree → Bool
  | .const => true
  | _ => false

/-- dimensional analysis of a formula: × adds, ÷ subtracts, constant power multiplies, sqrt
    halves, neg / + / − keep the dimension of the operand that has one -/
def dimT (rdefs : Defs) : UTree → Sym → Rat
  | .leaf u, t => dimU rdefs u t
  | .const, _ => 0
  | .powc a k, t => dimT rdefs a t * k
  | .un op a, t =>
    match opFun op with
    | some .neg => dimT rdefs a t
    | some .sqrt => dimT rdefs a t / 2
    | _ => 0
  | .bin op a b, t =>
    match opFun op with
    | some .mul => dimT rdefs a t + dimT rdefs b t
    | some .div => dimT rdefs a t - dimT rdefs b t
    | some .addsub => if isConstT a then dimT rdefs b t else dimT rdefs a t
    | _ => 0

/-! ### printer -/

def digitChar (d : Nat) : Char := Char.ofNat (48 + d)

/-- decimal digits, most significant first, appended to `acc` -/
def natStrAux : Nat → Nat → List Char → List Char
  | 0, _, acc => acc
  | f + 1, n, acc =>
    if n < 10 then digitChar n :: acc else natStrAux f (n / 10) (digitChar (n % 10) :: acc)

/-- `str(n)` for a natural number -/
def natStr (n : Nat) : List Char := natStrAux (n + 1) n []

/-- `str(i)` for an integer -/
def intStr (i : Int) : List Char :=
  if i < 0 then '-' :: natStr i.natAbs else natStr i.toNat

/-- `__power_num2str` for exponents with denominator ≤ 10 (where `limit_denominator(10)` is
    the identity) -/
def powerStr (q : Rat) : List Char :=
  if q.num = 1 ∧ q.den = 1 then []
  else if q.den = 1 then '^' :: intStr q.num
  else '^' :: '(' :: (intStr q.num ++ '/' :: natStr q.den ++ [')'])

def dot : List Char := Gen.dotString.toList

def joinDot : List (List Char) → List Char
  | [] => []
  | [x] => x
  | x :: y :: r => x ++ dot ++ joinDot (y :: r)

/-- `__construct_unit_string_with_exponents` -/
def constructExp (u : Units) : List Char :=
  joinDot (u.map fun (k, e) => k ++ powerStr e)

/-- `__construct_unit_string_as_fraction` -/
def constructFrac (u : Units) : List Char :=
  let num := (u.filter fun (_, e) => e > 0).map fun (k, e) => k ++ powerStr e
  let den := (u.filter fun (_, e) => e < 0).map fun (k, e) => k ++ powerStr (-e)
  let numS := if num.isEmpty then ['1'] else joinDot num
  let denS := joinDot den
  if den.isEmpty then (if num.isEmpty then [] else numS)
  else if den.length > 1 then numS ++ '/' :: '(' :: (denS ++ [')'])
  else numS ++ '/' :: denS

/-- unit style: `true` = FRACTION, `false` = EXPONENTS -/
def construct (defs : Defs) (frac : Bool) (u : Units) : List Char :=
  let u := packOr defs u
  if frac then constructFrac u else constructExp u

/-- the `unit` property: `construct_unit_string(self._unit) if self._unit else ""` -/
def unitProp (defs : Defs) (frac : Bool) (u : Units) : List Char :=
  if u.isEmpty then [] else construct defs frac u

/-- every exponent has denominator ≤ 10 (domain of `powerStr`) -/
def smallDen (u : Units) : Bool := u.all fun (_, e) => e.den ≤ 10

end QExPy.U

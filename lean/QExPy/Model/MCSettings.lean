/-
  The per-quantity Monte Carlo settings machine
  (qexpy/data/utils.py: MonteCarloSettings; qexpy/data/operations.py: MonteCarloEvaluator
   evaluate / regenerate_samples / clear / samples; qexpy/data/data.py: DerivedValue.mc,
   DerivedValue.recalculate).

  A simulation is identified by a number; what it contains (`World.samples id`) and its
  100-bin histogram (`World.hist id`, numpy.histogram — trusted) are parameters.  The machine
  decides WHEN a simulation is drawn or dropped, WHICH cache entries exist and WHAT a read
  returns as a function of the current samples and settings.
-/
import QExPy.Num
import QExPy.Model.MCStrategy
import QExPy.Model.MonteCarlo
import QExPy.Model.ModeWalk
import QExPy.Generated.MC

namespace QExPy
namespace MCS
variable {α : Type} [Num α]

/-- what is outside the machine: the outcome of simulation `id`, and its histogram -/
structure World (α : Type) where
  samples : Nat → List α
  hist : Nat → List Nat × List α

structure St (α : Type) where
  size : Nat                      -- settings[MONTE_CARLO_SAMPLE_SIZE]; 0 = follow the global size
  strategy : Strategy
  conf : α
  range : Option (α × α)          -- settings[XRANGE]; none = ()
  sim : Option Nat                -- evaluator.raw_samples: none = empty, some id = simulation id
  next : Nat                      -- number of simulations drawn so far (= next id)
  cMean : Option (α × α)          -- evaluator.values[MC_MEAN_AND_STD]
  cMode : Option (α × α)          -- evaluator.values[MC_MODE_AND_CONFIDENCE]
  cCustom : Option (α × α)        -- evaluator.values[MC_CUSTOM]
  global : Nat                    -- settings.monte_carlo_sample_size (global configuration)
  log : List Nat                  -- sizes of the simulations drawn, oldest first

/-- `MonteCarloSettings.__init__` + `MonteCarloEvaluator.__init__` (defaults: generated table) -/
def init (global : Nat) : St α :=
  { size := Gen.mcInitSize, strategy := Gen.mcInitStrategy, conf := Gen.mcInitConf,
    range := none, sim := none, next := 0, cMean := none, cMode := none, cCustom := none,
    global := global, log := [] }

inductive Op (α : Type) where
  | setSize (k : Int)                 -- d.mc.sample_size = k
  | resetSize                         -- d.mc.reset_sample_size()
  | setConf (c : α)                   -- d.mc.confidence = c
  | setRange (r : Option (α × α))     -- d.mc.set_xrange(lo, hi) / set_xrange()
  | useMode (c : Option α)            -- d.mc.use_mode_with_confidence(c)
  | useMean                           -- d.mc.use_mean_and_std()
  | useCustom (v e : α)               -- d.mc.use_custom_value_and_error(v, e)
  | read                              -- d.value, d.error under the Monte Carlo method
  | samples                           -- d.mc.samples()
  | recalc                            -- d.recalculate()
  | setGlobal (g : Nat)               -- q.set_monte_carlo_sample_size(g)
  | display (bins : Nat) (window : Option (α × α))
                                      -- d.mc.show_histogram(bins, range=window, …): a picture of the
                                      -- samples with the caller's bin count and display window
  | bystander                         -- anything done to OTHER objects: a figure drawn, a fit, another
                                      -- quantity configured / simulated / printed, a function run
                                      -- under a temporary sample size

inductive Out (α : Type) where
  | ok
  | rejected                          -- the library raises ValueError
  | pair (v e : α)
  | sampleSet (id : Nat)

/-- `MonteCarloSettings.sample_size` -/
def effSize (s : St α) : Nat := MC.sampleSize s.size s.global

/-- `regenerate_samples`: draw a simulation if none is stored (every `d.mc` access and every read) -/
def ensure (s : St α) : St α :=
  match s.sim with
  | some _ => s
  | none => { s with sim := some s.next, next := s.next + 1, log := s.log ++ [effSize s] }

/-- `MonteCarloEvaluator.clear` -/
def clear (s : St α) : St α :=
  { s with sim := none, cMean := none, cMode := none, cCustom := none }

/-- `np.ma.masked_outside(raw, lo, hi)`: keeps lo ≤ x ≤ hi -/
def inRange (r : Option (α × α)) (l : List α) : List α :=
  match r with
  | none => l
  | some (lo, hi) => l.filter fun x => !(Num.lt x lo) && !(Num.lt hi x)

/-- mean-and-std result of simulation `id` under range `r` -/
def meanOf (w : World α) (r : Option (α × α)) (id : Nat) : α × α :=
  MC.meanStd (inRange r (w.samples id))

/-- mode-and-confidence result of simulation `id` at confidence `c` (the range is NOT applied:
    `np.histogram` ignores the mask) -/
def modeOf (w : World α) (c : α) (id : Nat) : α × α :=
  ModeWalk.modeResult (w.hist id).1 (w.hist id).2 c

/-- the confidence setter: validates, stores, drops the cached mode result -/
def setConf' (s : St α) (c : α) : St α × Out α :=
  if Gen.mcConfBad c then (s, .rejected)
  else ({ s with conf := c, cMode := none }, .ok)

/-- `MonteCarloEvaluator.evaluate` once a simulation `id` is stored -/
def evalCore (w : World α) (s0 : St α) (id : Nat) : St α × Out α :=
  -- a custom strategy without a stored custom pair falls back to mean-and-std
  let s := if s0.strategy = .custom ∧ s0.cCustom.isNone then { s0 with strategy := .meanStd } else s0
  match s.strategy with
  | .meanStd =>
    let p := match s.cMean with | some p => p | none => meanOf w s.range id
    ({ s with cMean := some p }, .pair p.1 p.2)
  | .mode =>
    let p := match s.cMode with | some p => p | none => modeOf w s.conf id
    ({ s with cMode := some p }, .pair p.1 p.2)
  | .custom =>
    let p := s.cCustom.getD (Num.ofNat 0, Num.ofNat 0)
    (s, .pair p.1 p.2)

/-- `MonteCarloEvaluator.evaluate`: `regenerate_samples`, then the strategy dispatch with caching -/
def evaluate (w : World α) (s0 : St α) : St α × Out α :=
  let s := ensure s0
  evalCore w s (s.sim.getD 0)

def step (w : World α) (s : St α) : Op α → St α × Out α
  | .setSize k =>
    let s := ensure s
    if k < 0 then (s, .rejected) else (clear { s with size := k.toNat }, .ok)
  | .resetSize => ({ ensure s with size := 0 }, .ok)
  | .setConf c => setConf' (ensure s) c
  | .setRange r =>
    let s := ensure s
    match r with
    | none => ({ s with range := none, cMean := none, cMode := none, cCustom := none }, .ok)
    | some (lo, hi) =>
      if Num.lt hi lo then (s, .rejected)
      else ({ s with range := some (lo, hi), cMean := none, cMode := none, cCustom := none }, .ok)
  | .useMode c =>
    -- the confidence is validated and stored FIRST (`if confidence: self.confidence = …`), the
    -- strategy is switched afterwards: a rejected level leaves everything as it was
    let s := ensure s
    match c with
    | none => ({ s with strategy := .mode }, .ok)
    | some c =>
      if Num.isZero c then ({ s with strategy := .mode }, .ok)   -- `if confidence:`
      else
        match setConf' s c with
        | (s', .ok) => ({ s' with strategy := .mode }, .ok)
        | r => r
  | .useMean => ({ ensure s with strategy := .meanStd }, .ok)
  | .useCustom v e =>
    -- validated first; the strategy is switched only together with storing the pair
    let s := ensure s
    if Gen.mcCustomBad e then (s, .rejected)
    else ({ s with strategy := .custom, cCustom := some (v, e) }, .ok)
  | .read => evaluate w s
  | .samples =>
    let s := ensure s
    (s, .sampleSet (s.sim.getD 0))
  | .recalc => (clear s, .ok)
  | .setGlobal g => ({ s with global := g }, .ok)
  -- looking at the histogram goes through `d.mc` (a simulation is drawn if none is stored) and
  -- then only READS samples and settings: nothing is stored, whatever bins / range are displayed
  | .display _ _ => (ensure s, .ok)
  -- what happens to other objects does not touch this quantity nor the configured global size
  | .bystander => (s, .ok)

/-- run a history -/
def run (w : World α) (s : St α) : List (Op α) → St α
  | [] => s
  | o :: os => run w (step w s o).1 os

end MCS
end QExPy

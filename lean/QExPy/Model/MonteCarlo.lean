/-
  The Monte Carlo pipeline GIVEN the standard-normal offsets
  (qexpy/data/utils.py: generate_offset_matrix, correlate_samples;
   qexpy/data/operations.py: MonteCarloEvaluator.__compute_samples / evaluate,
   _generate_random_data_set).

  Inputs: the formula `e`, the sources in the code's order (`order`: variable index of the
  r-th source), central values μ and uncertainties σ per variable, the correlation matrix `R`
  the code builds with `get_correlation` (rows/columns in source order) and the offset matrix
  `Z` (row r = the `np.random.normal(0, 1, N)` array drawn for source r).

  Core Lean only; generic over `Num` (Float / FB in the driver, ℝ in the theorems).
-/
import QExPy.Num
import QExPy.FB
import QExPy.Model.Expr
import QExPy.Model.MCMat
import QExPy.Generated.MCCorr

namespace QExPy

/-- `np.isfinite` -/
class IsFin (α : Type) where
  isFinite : α → Bool

instance : IsFin Float := ⟨Float.isFinite⟩
instance : IsFin FB := ⟨fun x => x.v.isFinite⟩

namespace MC
variable {α : Type} [Num α]

/-! ### Cholesky factor (lower triangular, reads the lower triangle only, like LAPACK `potrf('L')`) -/

/-- a pivot must be strictly positive (LAPACK: `ajj <= 0 or isnan(ajj)` ⇒ not positive definite) -/
def pivotOk (p : α) : Bool := Num.lt zero p

/-- 1 × 1 -/
def chol1 (r11 : α) : Option α :=
  if pivotOk r11 then some (Num.sqrt r11) else none

/-- 2 × 2: returns (l11, l21, l22) -/
def chol2 (r11 r21 r22 : α) : Option (α × α × α) :=
  if pivotOk r11 then
    let l11 := Num.sqrt r11
    let l21 := Num.div r21 l11
    let d2 := Num.sub r22 (Num.mul l21 l21)
    if pivotOk d2 then some (l11, l21, Num.sqrt d2) else none
  else none

/-- 3 × 3: returns (l11, l21, l22, l31, l32, l33) -/
def chol3 (r11 r21 r22 r31 r32 r33 : α) : Option (α × α × α × α × α × α) :=
  if pivotOk r11 then
    let l11 := Num.sqrt r11
    let l21 := Num.div r21 l11
    let l31 := Num.div r31 l11
    let d2 := Num.sub r22 (Num.mul l21 l21)
    if pivotOk d2 then
      let l22 := Num.sqrt d2
      let l32 := Num.div (Num.sub r32 (Num.mul l31 l21)) l22
      let d3 := Num.sub (Num.sub r33 (Num.mul l31 l31)) (Num.mul l32 l32)
      if pivotOk d3 then some (l11, l21, l22, l31, l32, Num.sqrt d3) else none
    else none
  else none

/-- general n (Cholesky–Banachiewicz, row by row); used by the driver for n ≥ 4 and
    cross-checked against `chol2`/`chol3` there.  Not covered by the theorems. -/
def cholGen (R : Mat α) : Option (Mat α) :=
  let n := R.length
  (List.range n).foldl (init := some []) fun acc i =>
    match acc with
    | none => none
    | some L =>
      -- build row i: entries j < i, then the diagonal
      let row : Option (List α) :=
        (List.range (i + 1)).foldl (init := some []) fun racc j =>
          match racc with
          | none => none
          | some r =>
            let s := Num.sum ((List.range j).map fun k =>
              Num.mul (r.getD k zero) (if j = i then r.getD k zero else Mat.get L j k))
            let d := Num.sub (R.get i j) s
            if j = i then
              if pivotOk d then some (r ++ [Num.sqrt d]) else none
            else some (r ++ [Num.div d (Mat.get L j j)])
      match row with
      | none => none
      | some r => some (L ++ [r ++ List.replicate (n - 1 - i) zero])

/-- `np.linalg.cholesky(R)`: `none` = LinAlgError -/
def chol (R : Mat α) : Option (Mat α) :=
  match R.length with
  | 0 => some []
  | 1 => (chol1 (R.get 0 0)).map fun l => [[l]]
  | 2 => (chol2 (R.get 0 0) (R.get 1 0) (R.get 1 1)).map fun (l11, l21, l22) =>
      [[l11, zero], [l21, l22]]
  | 3 => (chol3 (R.get 0 0) (R.get 1 0) (R.get 1 1) (R.get 2 0) (R.get 2 1) (R.get 2 2)).map
      fun (l11, l21, l22, l31, l32, l33) => [[l11, zero, zero], [l21, l22, zero], [l31, l32, l33]]
  | _ => cholGen R

/-- `np.fill_diagonal(R, 1)`: `get_correlation` reports 0 even on the diagonal for a value with
    zero uncertainty; the code restores the unit diagonal before it tests / factorises -/
def unitDiag (R : Mat α) : Mat α :=
  (List.zip (List.range R.length) R).map fun (i, row) =>
    (List.zip (List.range row.length) row).map fun (j, x) => if i = j then one else x

/-- the factor the offsets are multiplied with, and whether the fallback warning is issued:
    no correlations ⇒ I; positive definite ⇒ chol R; otherwise I + warning
    (`R` is the matrix of `get_correlation` values; the diagonal is set to one first) -/
def factor (R0 : Mat α) : Mat α × Bool :=
  let R := unitDiag R0
  -- the "no correlations present" shortcut, as TRANSLATED from the source (Generated/MCCorr.lean);
  -- for the unchanged code it is `offDiagAllZero` (Props/C02: `C02_shortcut_generated`)
  if Gen.mcNoCorrelation R then (identity R.length, false)
  else match chol R with
    | some L => (L, false)
    | none => (identity R.length, true)

/-! ### applying the factor, scaling and shifting -/

/-- a·x + y element-wise (`acc + l * row`) -/
def axpy (l : α) (x acc : List α) : List α := List.zipWith (fun xi ai => Num.add ai (Num.mul l xi)) x acc

/-- row i of L·Z: Σ_k L_ik · Z_k -/
def mulRow (Lrow : List α) (Z : Mat α) (n : Nat) : List α :=
  (List.zip Lrow Z).foldl (fun acc (l, z) => axpy l z acc) (List.replicate n zero)

/-- `np.dot(L, Z)` -/
def matMul (L Z : Mat α) : Mat α :=
  let n := (Z.getD 0 []).length
  L.map fun Lrow => mulRow Lrow Z n

/-- `offsets * error + value` (`_generate_random_data_set`) -/
def scaleShift (μ σ : α) (row : List α) : List α :=
  row.map fun z => Num.add (Num.mul z σ) μ

/-- the simulated data sets, one row per source in the code's order -/
def dataSets (order : List Nat) (μ σ : Nat → α) (R Z : Mat α) : Mat α × Bool :=
  let (L, warned) := factor R
  let C := matMul L Z
  ((List.zip order C).map fun (v, row) => scaleShift (μ v) (σ v) row, warned)

/-- environment of draw j: variable v ↦ X_{position of v in order, j}; a variable that is not a
    source keeps its central value (never happens for a formula's own sources) -/
def envAt (order : List Nat) (μ : Nat → α) (X : Array (Array α)) (j : Nat) (v : Nat) : α :=
  match order.idxOf? v with
  | some r => ((X.getD r #[]).getD j (μ v))
  | none => μ v

/-- the formula applied to every draw (before discarding) -/
def outcomes (e : Expr α) (order : List Nat) (μ : Nat → α) (X : Mat α) (N : Nat) : List α :=
  let Xa : Array (Array α) := (X.map List.toArray).toArray
  (List.range N).map fun j => Expr.eval (envAt order μ Xa j) e

/-- `result[np.isfinite(result)]` -/
def keepFinite [IsFin α] (ys : List α) : List α := ys.filter IsFin.isFinite

/-! ### moments -/

/-- `np.mean` -/
def mean (l : List α) : α := Num.div (Num.sum l) (Num.ofNat l.length)

/-- `np.std(·, ddof=1)`: sqrt(Σ (x − mean)² / (n − 1)) -/
def std1 (l : List α) : α :=
  let m := mean l
  Num.sqrt (Num.div (Num.sum (l.map fun x => Num.mul (Num.sub x m) (Num.sub x m)))
    (Num.ofNat (l.length - 1)))

/-- the mean-and-standard-deviation result of a sample set -/
def meanStd (l : List α) : α × α := (mean l, std1 l)

/-- `MonteCarloSettings.sample_size`: the per-quantity size if non-zero, else the global one -/
def sampleSize (perQuantity global : Nat) : Nat := if perQuantity ≠ 0 then perQuantity else global

structure Result (α : Type) where
  samples : List α      -- the stored sample set (finite outcomes only)
  value : α
  error : α
  warned : Bool         -- fallback warning (non positive definite correlation matrix)
  raw : Nat             -- number of draws evaluated

/-- the whole pipeline -/
def simulate [IsFin α] (e : Expr α) (order : List Nat) (μ σ : Nat → α) (R Z : Mat α) : Result α :=
  let N := (Z.getD 0 []).length
  let (X, warned) := dataSets order μ σ R Z
  let ys := outcomes e order μ X N
  let kept := keepFinite ys
  let (v, er) := meanStd kept
  { samples := kept, value := v, error := er, warned := warned, raw := N }

end MC
end QExPy

/- The three Monte Carlo strategies of qexpy/settings/literals.py (MC_MEAN_AND_STD,
   MC_MODE_AND_CONFIDENCE, MC_CUSTOM).  Separate file so that Generated/MC.lean can name them. -/
namespace QExPy

inductive Strategy where
  | meanStd | mode | custom
  deriving DecidableEq, Repr, Inhabited

def Strategy.name : Strategy → String
  | .meanStd => "mean" | .mode => "mode" | .custom => "custom"

end QExPy

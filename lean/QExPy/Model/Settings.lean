/-
  The settings singleton as a state machine (qexpy/settings/settings.py).

  * `step c op` — one call of a `q.set_*` function / `reset_default_configuration` / a read,
    written in the order of the code's checks; the result says whether the call was carried
    out (`ok`) or refused with an exception (`reject`).
  * `withTempMc k f` — the decorator `use_mc_sample_size(k)` around ANY computation `f`
    (returning or raising an exception of any class).
  The tables (`members`, accepted strings, `initCfg`, `resetCfg`, `tempRestores`) are
  generated from the source on every run (QExPy/Generated/Settings.lean).  Core Lean only.
-/
import QExPy.Model.SettingsTypes
import QExPy.Generated.Settings

namespace QExPy.Settings

/-- index of the first member whose literal string is `s` (`EnumClass(s)`, lookup by value) -/
def valueIdx : List (String × String) → String → Option Nat
  | [], _ => none
  | (_, v) :: rest, s => if v = s then some 0 else (valueIdx rest s).map (· + 1)

/-- index of the member called `name` (`EnumClass.NAME`) -/
def nameIdx : List (String × String) → String → Option Nat
  | [], _ => none
  | (n, _) :: rest, s => if n = s then some 0 else (nameIdx rest s).map (· + 1)

/-- the enum-valued setters `error_method`, `print_style`, `unit_style`:
    `isinstance(x, C)` → stored as is; `x in [strings]` → `C(x)`; otherwise `ValueError`. -/
def enumArg (ty : EnumTy) : Arg → Option Nat
  | .scalar (.enumMember t i) =>
      if t = Gen.setterClass ty ∧ i < (Gen.members t).length then some i else none
  | .scalar (.str s) =>
      if s ∈ Gen.setterStrings ty then valueIdx (Gen.members (Gen.setterConv ty)) s else none
  | _ => none

/-- `isinstance(x, int) and x > c` with the generated bound `c` (`True` is the integer 1) -/
def intArg (lower : Int) : Arg → Option Int
  | .scalar (.int z) => if lower < z then some z else none
  | .scalar (.bool b) => if lower < (if b then 1 else 0) then some (if b then 1 else 0) else none
  | _ => none

/-- `x > c` for a Python float and an integer `c`; NaN compares False with everything, so it is
    refused by `not num > c` and let through by `num <= c` (`rejectsNan` says which is written) -/
def FloatV.gtInt (x : FloatV) (c : Int) (rejectsNan : Bool) : Bool :=
  match x with
  | .fin n d => decide (c * (d : Int) < n)
  | .posInf => true
  | .negInf => false
  | .nan => !rejectsNan

/-- `isinstance(num, (int, float))` and the generated positivity test -/
def numPos : Scalar → Option FloatV
  | .int z => if Gen.plotLower < z then some (.fin z 1) else none
  | .bool b => if Gen.plotLower < (if b then 1 else 0) then some (.fin (if b then 1 else 0) 1) else none
  | .float x => if x.gtInt Gen.plotLower Gen.plotRejectsNan then some x else none
  | _ => none

/-- `plot_dimensions` setter: a tuple of the generated length (the state holds two entries),
    then every entry a positive number -/
def plotArg : Arg → Option (FloatV × FloatV)
  | .tuple l =>
      if l.length = Gen.plotLen then
        match l with
        | [x, y] =>
          match numPos x, numPos y with
          | some a, some b => some (a, b)
          | _, _ => none
        | _ => none
      else none
  | _ => none

/-- member index of `SigFigMode.<name>` -/
def sigModeIdx (name : String) : Nat := (nameIdx (Gen.members .sigFigMode) name).getD 0

inductive Op where
  | setErrorMethod (a : Arg)
  | setPrintStyle (a : Arg)
  | setUnitStyle (a : Arg)
  | setSigVal (a : Arg)        -- `get_settings().sig_fig_value = a`
  | sigFigsValue (a : Arg)     -- `set_sig_figs_for_value(a)`
  | sigFigsError (a : Arg)     -- `set_sig_figs_for_error(a)`
  | setMcSize (a : Arg)
  | setPlotDims (a : Arg)
  | reset
  | read
  deriving DecidableEq, Repr, Inhabited

/-- one request -/
def step (c : Cfg) : Op → Cfg × Res
  | .setErrorMethod a =>
      match enumArg .errorMethod a with
      | some i => ({ c with errorMethod := i }, .ok)
      | none => (c, .reject)
  | .setPrintStyle a =>
      match enumArg .printStyle a with
      | some i => ({ c with printStyle := i }, .ok)
      | none => (c, .reject)
  | .setUnitStyle a =>
      match enumArg .unitStyle a with
      | some i => ({ c with unitStyle := i }, .ok)
      | none => (c, .reject)
  | .setSigVal a =>
      match intArg Gen.sigValLower a with
      | some z => ({ c with sigVal := z }, .ok)
      | none => (c, .reject)
  | .sigFigsValue a =>          -- the number is validated (and stored) before the mode is touched
      match intArg Gen.sigValLower a with
      | some z => ({ c with sigVal := z, sigMode := sigModeIdx Gen.sigFigsValueMode }, .ok)
      | none => (c, .reject)
  | .sigFigsError a =>
      match intArg Gen.sigValLower a with
      | some z => ({ c with sigVal := z, sigMode := sigModeIdx Gen.sigFigsErrorMode }, .ok)
      | none => (c, .reject)
  | .setMcSize a =>
      match intArg Gen.mcSizeLower a with
      | some z => ({ c with mcSize := z }, .ok)
      | none => (c, .reject)
  | .setPlotDims a =>
      match plotArg a with
      | some (w, h) => ({ c with plotW := w, plotH := h }, .ok)
      | none => (c, .reject)
  | .reset => (Gen.resetCfg c, .ok)
  | .read => (c, .ok)

/-- a whole history of requests (rejected ones included) -/
def run (c : Cfg) (ops : List Op) : Cfg := ops.foldl (fun c o => (step c o).1) c

/-- every option holds one of its documented values -/
def WF (c : Cfg) : Prop :=
  c.errorMethod < (Gen.members .errorMethod).length ∧
  c.printStyle < (Gen.members .printStyle).length ∧
  c.unitStyle < (Gen.members .unitStyle).length ∧
  c.sigMode < (Gen.members .sigFigMode).length ∧
  0 < c.sigVal ∧ 0 < c.mcSize ∧ c.plotW.pos = true ∧ c.plotH.pos = true

instance (c : Cfg) : Decidable (WF c) := by unfold WF; infer_instance

/-- `use_mc_sample_size(k)(f)` called in state `c`.
    `f` is the wrapped computation: it sees the state, may change it, and ends with a result
    `r`; `outcome r` says how it ended — returned, or raised an exception of some class (ANY
    class: derived from `Exception` or only from `BaseException`).  The decorator first saves
    the current size and sets `k` through the validating setter (a bad `k` raises before `f`
    runs: `none`); then runs `f`; then writes the saved size back through the setter — on the
    outcomes for which the source does so (`Gen.tempRestores`, generated from the shape of the
    wrapper: `finally:` = every outcome, `except Exception:` = only those classes, no `try` =
    only a normal return). -/
def withTempMc {ρ : Type} (outcome : ρ → Outcome) (k : Arg) (f : Cfg → Cfg × ρ) (c : Cfg) :
    Cfg × Option ρ :=
  match step c (.setMcSize k) with
  | (_, .reject) => (c, none)
  | (c1, .ok) =>
    let (c2, r) := f c1
    if Gen.tempRestores (outcome r) then
      ((step c2 (.setMcSize (.scalar (.int c.mcSize)))).1, some r)
    else
      (c2, some r)

end QExPy.Settings

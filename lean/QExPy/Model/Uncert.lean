/-
  Every path that creates or changes an uncertainty, as a state machine over a heap of quantities
  (qexpy/data/data.py: MeasuredValue.__init__ and setters, RepeatedlyMeasuredValue.__init__,
   value setter and use_* selectors, DerivedValue setters; qexpy/data/datasets.py:
   ExperimentalValueArray.__new__ / __wrap, XYDataSet.__init__ / __wrap_data,
   _get_error_array_helper; qexpy/data/utils.py: wrap_in_measurement / wrap_in_experimental_value;
   qexpy/data/operations.py: DerivativeEvaluator.__evaluate through Model/Expr.lean;
   MonteCarloEvaluator.evaluate — mean / n−1 standard deviation of the stored samples, the mode
   walk of qexpy/utils/utils.py: find_mode_and_uncertainty through Model/ModeWalk.lean, or the
   custom pair of qexpy/data/utils.py: MonteCarloSettings.use_custom_value_and_error).

  Generic over `Num`: run with `FB`, proved with `ℝ`.
  The sign tests, the stored / new uncertainties and the arrays of `_get_error_array_helper` are
  the terms regenerated from the source on every run (`QExPy/Generated/Uncert.lean`, translator
  section `uncert`, which also checks the order test-before-assignment of every setter and the
  branch order of the helper).
-/
import QExPy.Num
import QExPy.Model.Stats
import QExPy.Model.Expr
import QExPy.Generated.Uncert
import QExPy.Model.ModeWalk

namespace QExPy.Uncert
open QExPy

inductive Kind where
  | single | repeated | derived
  deriving DecidableEq, Repr, Inhabited

structure Qty (α : Type) where
  kind : Kind
  value : α
  error : α
  /-- readings and their individual uncertainties (repeated measurements only) -/
  xs : List α
  es : List α
  /-- the formula, unfolded to measurements (derived values only) -/
  expr : Expr α

abbrev Heap (α : Type) := List (Qty α)

/-- the `error` / `relative_error` arguments of the array-like constructors -/
inductive ErrSpec (α : Type) where
  | none
  | common (e : α)
  | each (es : List α)
  | rel (r : α)
  | rels (rs : List α)

/-- an operand of an arithmetic operator -/
inductive Operand (α : Type) where
  | num (c : α)
  | pair (v e : α)
  | ref (i : Nat)

inductive Op (α : Type) where
  /-- `q.Measurement(v)` / `q.Measurement(v, e)`; also `wrap_in_measurement((v, e))` -/
  | mkMeasurement (v : α) (e : Option α)
  /-- `q.Measurement([x...], e | [e...])` -/
  | mkRepeated (xs : List α) (spec : ErrSpec α)
  /-- `q.MeasurementArray([x...], error=… | relative_error=…)`: one slot per element -/
  | mkArray (xs : List α) (spec : ErrSpec α)
  /-- `q.XYDataSet(xs, ys, xerr=…, yerr=…)`: the x elements, then the y elements -/
  | mkXY (xs ys : List α) (xerr yerr : ErrSpec α)
  /-- existing quantities wrapped again with new uncertainties:
      `MeasurementArray(array_of_values, error=…)` / `XYDataSet(xdata=array, xerr=…)` -/
  | rewrap (ids : List Nat) (spec : ErrSpec α)
  /-- `XYDataSet(xdata=array, ydata=array, xerr=…, yerr=…)` over two existing arrays -/
  | rewrapXY (idsX idsY : List Nat) (xerr yerr : ErrSpec α)
  | setError (i : Nat) (e : α)
  | setRelError (i : Nat) (r : α)
  | setValue (i : Nat) (v : α)
  | sel (i : Nat) (s : Stats.Sel)
  | arith (o : Op2) (a b : Operand α)
  | unary (o : Op1) (a : Nat)
  /-- `d.error_method = MONTE_CARLO; d.mc.use_mean_and_std()` and a read: value and uncertainty
      are the mean and the n−1 standard deviation of the stored sample set (a parameter: what
      `d.mc.samples()` returns) -/
  | mcMeanStd (i : Nat) (samples : List α)
  /-- `d.mc.use_mode_with_confidence(conf)` and a read: the mode walk on the 100-bin histogram of
      the stored samples (`numpy.histogram`, a parameter) -/
  | mcMode (i : Nat) (counts : List Nat) (edges : List α) (conf : α)
  /-- `d.mc.use_custom_value_and_error(v, e)` -/
  | mcCustom (i : Nat) (v e : α)

inductive Out where
  | ok | reject
  deriving DecidableEq, Repr, Inhabited

variable {α : Type} [Num α]

def zero : α := Num.ofNat 0

def single (v e : α) : Qty α := ⟨.single, v, e, [], [], .const zero⟩

def neg? (x : α) : Bool := Num.lt x zero

/-- the final sign test of `_get_error_array_helper`, on the array of the branch taken -/
def errFinish (l : List α) : Option (List α) := if Gen.errArrayBad l then none else some l

/-- `_get_error_array_helper(data, error, rel_error)`; `none` = an exception is raised -/
def errArray (xs : List α) : ErrSpec α → Option (List α)
  | .none => errFinish (Gen.errNone xs)
  | .common e => errFinish (Gen.errCommon xs e)
  | .each es =>
    if es.length != xs.length then none
    else errFinish (Gen.errEach xs es)
  | .rel r => errFinish (Gen.errRel xs r)
  | .rels rs =>
    if rs.length != xs.length then none
    else errFinish (Gen.errRels xs rs)

/-- `MeasuredValue.__init__`: the uncertainty must not be negative -/
def mkMeasurement (h : Heap α) (v : α) (e : Option α) : Heap α × Out :=
  match e with
  | none => (h ++ [single v zero], .ok)
  | some e => if Gen.ctorNegBad e then (h, .reject) else (h ++ [single v (Gen.ctorError e)], .ok)

def mkRepeated (h : Heap α) (xs : List α) (spec : ErrSpec α) : Heap α × Out :=
  match spec with
  | .rel _ | .rels _ => (h, .reject)        -- not part of this constructor
  | spec =>
    match errArray xs spec with
    | none => (h, .reject)
    | some es => (h ++ [⟨.repeated, Stats.mean xs, Stats.sem xs, xs, es, .const zero⟩], .ok)

def mkArray (h : Heap α) (xs : List α) (spec : ErrSpec α) : Heap α × Out :=
  match errArray xs spec with
  | none => (h, .reject)
  | some es => (h ++ List.zipWith single xs es, .ok)

def plainSpec : ErrSpec α → Bool
  | .rel _ | .rels _ => false
  | _ => true

def mkXY (h : Heap α) (xs ys : List α) (xerr yerr : ErrSpec α) : Heap α × Out :=
  if !plainSpec xerr || !plainSpec yerr then (h, .reject)
  else
    match errArray xs xerr, errArray ys yerr with
    | some ex, some ey =>
      if xs.length != ys.length then (h, .reject)
      else (h ++ List.zipWith single xs ex ++ List.zipWith single ys ey, .ok)
    | _, _ => (h, .reject)

def setErr (h : Heap α) (i : Nat) (e : α) : Heap α :=
  match h[i]? with
  | some q => h.set i { q with error := e }
  | none => h

/-- assign the uncertainties one by one (each through the `error` setter) -/
def assignErrors (h : Heap α) : List Nat → List α → Heap α
  | i :: is, e :: es => assignErrors (setErr h i e) is es
  | _, _ => h

/-- every id is a live, non-derived quantity (the elements of a MeasurementArray) -/
def allMeasured (h : Heap α) (ids : List Nat) : Bool :=
  ids.all fun i => match h[i]? with
    | some q => q.kind != .derived
    | none => false

def rewrap (h : Heap α) (ids : List Nat) (spec : ErrSpec α) : Heap α × Out :=
  if !allMeasured h ids then (h, .reject)
  else
    match spec with
    | .none => (h, .ok)
    | .rel _ | .rels _ => (h, .reject)     -- `abs()` of an array of quantities is a TypeError
    | spec =>
      let vals := ids.map fun i => match h[i]? with | some q => q.value | none => zero
      match errArray vals spec with
      | none => (h, .reject)
      | some es => (assignErrors h ids es, .ok)

def valsOf (h : Heap α) (ids : List Nat) : List α :=
  ids.map fun i => match h[i]? with | some q => q.value | none => zero

/-- no specification: the existing uncertainties stay -/
def assignOpt (h : Heap α) (ids : List Nat) (spec : ErrSpec α) (es : List α) : Heap α :=
  match spec with
  | .none => h
  | _ => assignErrors h ids es

/-- both uncertainty specifications and the lengths are validated before anything is assigned -/
def rewrapXY (h : Heap α) (idsX idsY : List Nat) (xerr yerr : ErrSpec α) : Heap α × Out :=
  if !allMeasured h idsX || !allMeasured h idsY then (h, .reject)
  else if !plainSpec xerr || !plainSpec yerr then (h, .reject)
  else
    match errArray (valsOf h idsX) xerr, errArray (valsOf h idsY) yerr with
    | some ex, some ey =>
      if idsX.length != idsY.length then (h, .reject)
      else
        (assignOpt (assignOpt h idsX xerr ex) idsY yerr ey, .ok)
    | _, _ => (h, .reject)

/-- `x.error = e` (MeasuredValue and DerivedValue setters; a derived value becomes a measurement) -/
def setError (h : Heap α) (i : Nat) (e : α) : Heap α × Out :=
  match h[i]? with
  | none => (h, .reject)
  | some q =>
    if (match q.kind with | .derived => Gen.dSetErrBad e | _ => Gen.setErrBad e) then (h, .reject)
    else
      match q.kind with
      | .derived => (h.set i { q with kind := .single, error := Gen.dSetErrNew q.value e }, .ok)
      | _ => (h.set i { q with error := Gen.setErrNew q.value e }, .ok)

/-- `x.relative_error = r`: the uncertainty becomes `|value| * r` -/
def setRelError (h : Heap α) (i : Nat) (r : α) : Heap α × Out :=
  match h[i]? with
  | none => (h, .reject)
  | some q =>
    if (match q.kind with | .derived => Gen.dSetRelBad r | _ => Gen.setRelBad r) then (h, .reject)
    else
      match q.kind with
      | .derived => (h.set i { q with kind := .single, error := Gen.dSetRelNew q.value r }, .ok)
      | _ => (h.set i { q with error := Gen.setRelNew q.value r }, .ok)

/-- `x.value = v`: a repeated measurement or a derived value becomes a single measurement and
    keeps its uncertainty -/
def setValue (h : Heap α) (i : Nat) (v : α) : Heap α × Out :=
  match h[i]? with
  | none => (h, .reject)
  | some q => (h.set i { q with kind := .single, value := v }, .ok)

def sel (h : Heap α) (i : Nat) (s : Stats.Sel) : Heap α × Out :=
  match h[i]? with
  | none => (h, .reject)
  | some q =>
    match q.kind with
    | .repeated =>
      let r := Stats.Rep.step ⟨q.xs, q.es, q.value, q.error⟩ s
      (h.set i { q with value := r.value, error := r.error }, .ok)
    | _ => (h, .reject)      -- no such method on a single measurement / derived value

/-- the formula an operand stands for; a `(v, e)` pair becomes a new measurement at `slot` -/
def operandExpr (h : Heap α) (slot : Nat) : Operand α → Option (Expr α × Heap α)
  | .num c => some (.const c, h)
  | .pair v e =>
    if Gen.ctorNegBad e then none else some (.var slot, h ++ [single v (Gen.ctorError e)])
  | .ref i =>
    match h[i]? with
    | none => none
    | some q =>
      match q.kind with
      | .derived => some (q.expr, h)
      | _ => some (.var i, h)

def envOf (h : Heap α) (i : Nat) : α := match h[i]? with | some q => q.value | none => zero
def sigOf (h : Heap α) (i : Nat) : α := match h[i]? with | some q => q.error | none => zero

/-- the derived value of a formula, evaluated now by the derivative method (no correlations) -/
def derive (h : Heap α) (e : Expr α) : Qty α :=
  let (v, s) := Expr.propagate (envOf h) (sigOf h) (fun _ _ => zero) e
  ⟨.derived, v, s, [], [], e⟩

def arith (h : Heap α) (o : Op2) (a b : Operand α) : Heap α × Out :=
  match operandExpr h h.length a with
  | none => (h, .reject)
  | some (ea, h1) =>
    match operandExpr h1 h1.length b with
    | none => (h, .reject)
    | some (eb, h2) => (h2 ++ [derive h2 (.bin o ea eb)], .ok)

def unary (h : Heap α) (o : Op1) (a : Nat) : Heap α × Out :=
  match operandExpr h h.length (.ref a) with
  | none => (h, .reject)
  | some (ea, h1) => (h1 ++ [derive h1 (.un o ea)], .ok)

/-! ### Monte Carlo results of a calculated quantity (only a `DerivedValue` has `.mc`) -/

/-- default strategy: mean and n−1 standard deviation of the stored samples -/
def mcMeanStd (h : Heap α) (i : Nat) (samples : List α) : Heap α × Out :=
  match h[i]? with
  | none => (h, .reject)
  | some q =>
    match q.kind with
    | .derived => (h.set i { q with value := Stats.mean samples, error := Stats.std1 samples }, .ok)
    | _ => (h, .reject)

/-- the confidence setter refuses levels outside [0, 1] BEFORE the strategy is switched -/
def badConf (c : α) : Bool := Num.lt (Num.ofNat 1) c || Num.lt c zero

/-- mode strategy: centre of the fullest bin, `k` bin widths -/
def mcMode (h : Heap α) (i : Nat) (counts : List Nat) (edges : List α) (conf : α) : Heap α × Out :=
  match h[i]? with
  | none => (h, .reject)
  | some q =>
    match q.kind with
    | .derived =>
      if badConf conf then (h, .reject)
      else
        let p := ModeWalk.modeResult counts edges conf
        (h.set i { q with value := p.1, error := p.2 }, .ok)
    | _ => (h, .reject)

/-- custom pair: a negative uncertainty is refused before anything is switched or stored -/
def mcCustom (h : Heap α) (i : Nat) (v e : α) : Heap α × Out :=
  match h[i]? with
  | none => (h, .reject)
  | some q =>
    match q.kind with
    | .derived => if neg? e then (h, .reject) else (h.set i { q with value := v, error := e }, .ok)
    | _ => (h, .reject)

/-- what `numpy.histogram` guarantees about the edges it returns: the last is not below the first
    (the bin width `(last − first)/len` is then `≥ 0`).  Checked by the driver on every request. -/
def edgesOrdered (edges : List α) : Bool :=
  Num.le (edges.getD 0 zero) (edges.getD (edges.length - 1) zero)

def step (h : Heap α) : Op α → Heap α × Out
  | .mkMeasurement v e => mkMeasurement h v e
  | .mkRepeated xs spec => mkRepeated h xs spec
  | .mkArray xs spec => mkArray h xs spec
  | .mkXY xs ys xe ye => mkXY h xs ys xe ye
  | .rewrap ids spec => rewrap h ids spec
  | .rewrapXY ix iy xe ye => rewrapXY h ix iy xe ye
  | .setError i e => setError h i e
  | .setRelError i r => setRelError h i r
  | .setValue i v => setValue h i v
  | .sel i s => sel h i s
  | .arith o a b => arith h o a b
  | .unary o a => unary h o a
  | .mcMeanStd i smp => mcMeanStd h i smp
  | .mcMode i cnt edges c => mcMode h i cnt edges c
  | .mcCustom i v e => mcCustom h i v e

def exec (h : Heap α) (ops : List (Op α)) : Heap α := ops.foldl (fun h op => (step h op).1) h

end QExPy.Uncert

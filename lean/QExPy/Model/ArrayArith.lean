/-
  C11 — array arithmetic is element-wise scalar arithmetic.

  Model of
    qexpy/data/datasets.py : ExperimentalValueArray.__add__ … __rtruediv__, __pow__, __rpow__
    qexpy/data/data.py     : ExperimentalValue.__add__ … (the `isinstance(other, ARRAY_TYPES)` branch)
    qexpy/utils/utils.py   : vectorize
    qexpy/data/operations.py : @utils.vectorize on every math function, `_execute`

  A scalar is a plain number or a quantity.  A quantity is its *formula* (`Expr`, the C01
  model: leaves are measurement identities, so `a - a` is `x_i - x_i`) plus a unit tag of an
  arbitrary type `υ` combined by an arbitrary scalar unit semantics `UnitAlg` (the unit model
  itself is C08's; C11 only says "the same unit as the scalar operation").  The value and
  the uncertainty of a quantity are `Expr.propagate` of its formula (C01).

  numpy's object-array broadcasting and `np.vectorize` are *not* modelled: the model says what
  they are expected to do (apply the scalar operation position by position, broadcasting
  scalars); that they do is the correspondence run.
-/
import QExPy.Model.Expr
namespace QExPy.Arr

/-- scalar unit semantics (abstract): unit of a plain number, of `f(x)`, of `x ∘ y`.
    The binary rule may look at the operands' formulas (the unit of `x ** 2` depends on the
    exponent). -/
structure UnitAlg (α υ : Type) where
  none : υ
  un : Op1 → υ → υ
  bin : Op2 → υ → Expr α → υ → Expr α → υ

/-- a scalar operand / an array element -/
inductive Sc (α υ : Type) where
  | num (c : α)
  | qty (e : Expr α) (u : υ)
  deriving Inhabited

/-- math functions exported by the package (one argument): the operators of `Op1` except
    `neg`, and the degree variants -/
inductive Fn where
  | un (o : Op1)
  | deg (o : DegOp)
  deriving DecidableEq, Repr, Inhabited

namespace Sc
variable {α υ : Type} [Num α] (U : UnitAlg α υ)

/-- `dut.wrap_in_experimental_value`: a number becomes a Constant -/
def toExpr : Sc α υ → Expr α
  | num c => .const c
  | qty e _ => e

def unit : Sc α υ → υ
  | num _ => U.none
  | qty _ u => u

def isNum : Sc α υ → Bool
  | num _ => true
  | qty _ _ => false

/-- the scalar binary operation: Python operator on two scalars of which at least one is a
    quantity (`DerivedValue(Formula(op, [wrap a, wrap b]))`), or `_execute(op, a, b)`:
    all operands plain numbers ⇒ `OPERATIONS[op]` on the numbers. -/
def bin (o : Op2) : Sc α υ → Sc α υ → Sc α υ
  | num a, num b => num (Gen.op2 o a b)
  | x, y => qty (.bin o x.toExpr y.toExpr) (U.bin o (x.unit U) x.toExpr (y.unit U) y.toExpr)

/-- the scalar one-argument math function (`_execute(op, x)`; degree variants evaluate the
    radian function at the generated argument `x / 180 * pi`) -/
def fn : Fn → Sc α υ → Sc α υ
  | .un o, num c => num (Gen.op1 o c)
  | .un o, qty e u => qty (.un o e) (U.un o u)
  | .deg o, num c => num (Gen.op1 (Expr.degOuter o) (Gen.degArg o c))
  | .deg o, qty e u =>
      let u1 := U.bin .div u e U.none (.const (Num.ofNat 180))
      let e1 : Expr α := .bin .div e (.const (Num.ofNat 180))
      let u2 := U.bin .mul u1 e1 U.none (.const Num.pi)
      qty (Expr.deg o e) (U.un (Expr.degOuter o) u2)

/-- (value, uncertainty) of a scalar under the derivative method: C01's `propagate` -/
def valErr (env σ : Nat → α) (ρ : Nat → Nat → α) : Sc α υ → α × α
  | num c => (c, Num.ofNat 0)
  | qty e _ => Expr.propagate env σ ρ e

end Sc

/-- container kinds -/
inductive Kind where
  | scalar | list | ndarray | marray
  deriving DecidableEq, Repr, Inhabited

def Kind.rank : Kind → Nat
  | .scalar => 0 | .list => 1 | .ndarray => 2 | .marray => 3

/-- result container of a vectorised call: any MeasurementArray ⇒ MeasurementArray, else any
    ndarray ⇒ ndarray, else any list ⇒ list, else a scalar (`utils.vectorize`) -/
def Kind.join (a b : Kind) : Kind := if a.rank ≤ b.rank then b else a

/-- an array-level value: a container kind and its elements (a scalar is a container of
    exactly one element that broadcasts) -/
structure AVal (α υ : Type) where
  kind : Kind
  elems : List (Sc α υ)
  deriving Inhabited

/-- the operand kinds of the property -/
inductive Operand (α υ : Type) where
  | scalarNum (c : α)
  | quantity (e : Expr α) (u : υ)
  | pair (i : Nat)                       -- a (value, error) tuple: a fresh measurement `var i`
  | listNum (cs : List α)
  | ndarrayNum (cs : List α)
  | marray (es : List (Expr α × υ))

namespace Operand
variable {α υ : Type} [Num α] (U : UnitAlg α υ)

def toVal : Operand α υ → AVal α υ
  | scalarNum c => ⟨.scalar, [.num c]⟩
  | quantity e u => ⟨.scalar, [.qty e u]⟩
  | pair i => ⟨.scalar, [.qty (.var i) U.none]⟩
  | listNum cs => ⟨.list, cs.map .num⟩
  | ndarrayNum cs => ⟨.ndarray, cs.map .num⟩
  | marray es => ⟨.marray, es.map fun (e, u) => .qty e u⟩

end Operand

namespace AVal
variable {α υ : Type} [Num α] (U : UnitAlg α υ)

def isArray (a : AVal α υ) : Bool := a.kind != .scalar

/-- the i-th element, scalars broadcast -/
def get? (a : AVal α υ) (i : Nat) : Option (Sc α υ) :=
  if a.kind = .scalar then a.elems.head? else a.elems[i]?

/-- position-by-position application with scalar broadcasting; `none` = shapes do not match
    (numpy raises "operands could not be broadcast together") -/
def zip (f : Sc α υ → Sc α υ → Sc α υ) (a b : AVal α υ) : Option (List (Sc α υ)) :=
  match a.kind, b.kind with
  | .scalar, .scalar =>
    match a.elems, b.elems with
    | [x], [y] => some [f x y]
    | _, _ => none
  | .scalar, _ =>
    match a.elems with
    | [x] => some (b.elems.map (f x))
    | _ => none
  | _, .scalar =>
    match b.elems with
    | [y] => some (a.elems.map (f · y))
    | _ => none
  | _, _ =>
    if a.elems.length = b.elems.length then some (List.zipWith f a.elems b.elems) else none

/-- a vectorised two-argument function (`q.log(base, x)`): `utils.vectorize` + `_execute` -/
def fn2 (o : Op2) (a b : AVal α υ) : Option (AVal α υ) :=
  (zip (Sc.bin U o) a b).map fun es => ⟨a.kind.join b.kind, es⟩

/-- a Python binary operator with a MeasurementArray on at least one side
    (`ExperimentalValueArray.__op__/__rop__`, `ExperimentalValue.__op__` deferring to the
    array's reflected method); other combinations are not this property's business -/
def binop (o : Op2) (a b : AVal α υ) : Option (AVal α υ) :=
  if a.kind = .marray ∨ b.kind = .marray then fn2 U o a b else none

/-- a vectorised one-argument function -/
def fn1 (f : Fn) (a : AVal α υ) : AVal α υ := ⟨a.kind, a.elems.map (Sc.fn U f)⟩

end AVal

/-- an array-level expression: what a user writes with arrays, scalars, operators, functions -/
inductive ATree (α υ : Type) where
  | leaf (v : AVal α υ)
  | fn (f : Fn) (t : ATree α υ)
  | op (o : Op2) (l r : ATree α υ)      -- Python operator (needs a MeasurementArray on a side)
  | log2 (base x : ATree α υ)           -- q.log(base, x)

namespace ATree
variable {α υ : Type} [Num α] (U : UnitAlg α υ)

/-- array-level evaluation (what the library does) -/
def eval : ATree α υ → Option (AVal α υ)
  | leaf v => some v
  | fn f t => (eval t).map (AVal.fn1 U f)
  | op o l r => do AVal.binop U o (← eval l) (← eval r)
  | log2 b x => do AVal.fn2 U .log (← eval b) (← eval x)

/-- the same expression written for the i-th elements individually (scalar arithmetic) -/
def at? (i : Nat) : ATree α υ → Option (Sc α υ)
  | leaf v => v.get? i
  | fn f t => (at? i t).map (Sc.fn U f)
  | op o l r => do pure (Sc.bin U o (← at? i l) (← at? i r))
  | log2 b x => do pure (Sc.bin U .log (← at? i b) (← at? i x))

end ATree
end QExPy.Arr

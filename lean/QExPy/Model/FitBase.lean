/-
  Alphabet of the pre-set fit models (keys of qexpy/fitting/utils.py: FITTERS) and the
  list fold `functools.reduce(f, iterable)` used by the variadic polynomial model.
  Hand written; the translator (vf/tr/fitters.py) checks that the key set of FITTERS is
  exactly these constructors (else: tie broken).
-/
import QExPy.Model.Expr

namespace QExPy

inductive FitModel where
  | linear | quadratic | polynomial | exponential | gaussian
  deriving DecidableEq, Repr, Inhabited

def FitModel.all : List FitModel := [.linear, .quadratic, .polynomial, .exponential, .gaussian]

def FitModel.name : FitModel → String
  | .linear => "linear" | .quadratic => "quadratic" | .polynomial => "polynomial"
  | .exponential => "exponential" | .gaussian => "gaussian"

def FitModel.ofName? (s : String) : Option FitModel := FitModel.all.find? (·.name == s)

namespace Expr
variable {α : Type} [Num α]

/-- `functools.reduce(f, l)` without initial value: `f(...f(f(l0, l1), l2)..., ln)`.
    (Python raises TypeError on an empty iterable; a polynomial fit always has ≥ 1 coefficient.) -/
def reduce1 (f : Expr α → Expr α → Expr α) : List (Expr α) → Expr α
  | [] => const (Num.ofNat 0)
  | a :: rest => rest.foldl f a

/-- replace every variable by a formula (a user model written over variables `0..m-1` =
    parameters, `m` = x is applied to actual argument formulas) -/
def subst (s : Nat → Expr α) : Expr α → Expr α
  | var i => s i
  | const c => const c
  | un o a => un o (subst s a)
  | bin o a b => bin o (subst s a) (subst s b)

/-- a missing positional parameter (never happens for a well-formed call) -/
def arg (ps : List (Expr α)) (k : Nat) : Expr α := ps.getD k (const (Num.ofNat 0))

end Expr
end QExPy

/-
  The correlation / covariance store as a state machine
  (qexpy/data/data.py: ExperimentalValue._correlations, MeasuredValue.get/set_covariance,
   get/set_correlation, RepeatedlyMeasuredValue.set_covariance/set_correlation, the module-level
   get_/set_covariance/correlation and reset_correlations).

  Generic over `Num`: the driver runs it with `FB`, the theorems are about `ℝ`.
  The checks appear in the code's order: type checks, zero-σ check, missing-number check (with
  inference from equal-length raw arrays for repeated measurements), bound check, then the write.
  The formulas and tests inside these steps are the terms regenerated from the source on every
  run (`QExPy/Generated/Corr.lean`, translator section `corr`, which also checks the order of the
  steps, the exception classes, the store key and the record layout against this file).
-/
import QExPy.Num
import QExPy.Model.Stats
import QExPy.Generated.Corr

namespace QExPy.Corr
open QExPy

/-- what kind of Python object an operand is -/
inductive Kind where
  | single      -- MeasuredValue
  | repeated    -- RepeatedlyMeasuredValue
  | derived     -- DerivedValue
  | constant    -- Constant
  | foreign     -- not an ExperimentalValue at all (a float, a string, ...)
  deriving DecidableEq, Repr, Inhabited

def Kind.all : List Kind := [.single, .repeated, .derived, .constant, .foreign]
def Kind.name : Kind → String
  | .single => "single" | .repeated => "repeated" | .derived => "derived"
  | .constant => "constant" | .foreign => "foreign"
def Kind.ofName? (s : String) : Option Kind := Kind.all.find? (·.name == s)

/-- `isinstance(x, MeasuredValue)` -/
def Kind.measured : Kind → Bool
  | .single | .repeated => true
  | _ => false
/-- `isinstance(x, ExperimentalValue)` -/
def Kind.isEV : Kind → Bool
  | .foreign => false
  | _ => true

structure Qty (α : Type) where
  kind : Kind
  /-- what `.std` reads: the uncertainty of a single measurement, the sample standard deviation
      of a repeated one -/
  std : α
  /-- the readings (repeated measurements only) -/
  raw : List α
  /-- readings recorded without individual uncertainties (`raw_data` is then a plain array) -/
  plain : Bool

/-- one record of the store; `sa`, `sb` are ghost fields (the two standard deviations at the time
    of recording), never read by the get functions -/
structure Rec (α : Type) where
  corr : α
  cov : α
  sa : α
  sb : α

/-- `'_'.join(sorted([id_a, id_b]))` -/
def key (a b : Nat) : Nat × Nat := if a ≤ b then (a, b) else (b, a)

abbrev Store (α : Type) := List ((Nat × Nat) × Rec α)

def lookup {α : Type} (k : Nat × Nat) : Store α → Option (Rec α)
  | [] => none
  | (k', r) :: rest => if k' = k then some r else lookup k rest

structure State (α : Type) where
  qs : List (Qty α)
  store : Store α

inductive Out (α : Type) where
  | ok
  | reject
  | num (x : α)

/-- function form `q.set_covariance(a, b, v)` or method form `a.set_covariance(b, v)` -/
inductive Form where
  | fn | meth
  deriving DecidableEq, Repr, Inhabited

inductive Which where
  | corr | cov
  deriving DecidableEq, Repr, Inhabited

inductive Op (α : Type) where
  /-- `m.error = s` on a single measurement (changes its `std`) -/
  | setStd (i : Nat) (s : α)
  | set (w : Which) (f : Form) (a b : Nat) (v : Option α)
  | get (w : Which) (f : Form) (a b : Nat)
  | reset

variable {α : Type} [Num α]

def foreignQty : Qty α := ⟨.foreign, Num.ofNat 0, [], true⟩

def qty (s : State α) (i : Nat) : Qty α := s.qs.getD i foreignQty

def one : α := Num.ofNat 1
def zero : α := Num.ofNat 0

/-- `corr > 1 or corr < -1` (the test of `set_correlation`) -/
def outOfRange (c : α) : Bool := Gen.corrBoundBad c

/-- the generated pieces, selected by the kind of request (s1 = self.std, s2 = other.std) -/
def zeroSigmaGet : Which → α → α → Bool
  | .cov => Gen.getCovZeroSigma | .corr => Gen.getCorrZeroSigma
def zeroSigmaSet : Which → α → α → Bool
  | .cov => Gen.setCovZeroSigma | .corr => Gen.setCorrZeroSigma
def selfAnswer : Which → α → α → α
  | .cov => Gen.selfCov | .corr => Gen.selfCorr
def nonMeasuredAnswer : Which → α → α → α
  | .cov => Gen.getCovNonMeasured | .corr => Gen.getCorrNonMeasured
def defaultAnswer : Which → α → α → α
  | .cov => Gen.getCovDefault | .corr => Gen.getCorrDefault

/-! ### reads -/

/-- `MeasuredValue.get_covariance / get_correlation` (self = a, a measurement) -/
def getMeasured (s : State α) (w : Which) (a b : Nat) : Out α :=
  let qa := qty s a
  let qb := qty s b
  if !qb.kind.isEV then .reject
  else if !qb.kind.measured then .num (nonMeasuredAnswer w qa.std qb.std)
  else if zeroSigmaGet w qa.std qb.std then .num zero
  else if a = b then .num (selfAnswer w qa.std qb.std)
  else
    match lookup (key a b) s.store with
    | some r => .num (match w with | .corr => r.corr | .cov => r.cov)
    | none => .num (defaultAnswer w qa.std qb.std)

/-- method form: `a.get_x(b)`; the base class answers 0 for a derived value or a constant -/
def getMeth (s : State α) (w : Which) (a b : Nat) : Out α :=
  let qa := qty s a
  if !qa.kind.isEV then .reject      -- not callable at all
  else if !qa.kind.measured then .num zero
  else getMeasured s w a b

/-- function form: `q.get_x(a, b)` -/
def getFn (s : State α) (w : Which) (a b : Nat) : Out α :=
  let qa := qty s a
  let qb := qty s b
  if !qa.kind.isEV || !qb.kind.isEV then .reject
  else if qa.kind.measured && qb.kind.measured then getMeasured s w a b
  else .num zero

def get (s : State α) (w : Which) : Form → Nat → Nat → Out α
  | .fn, a, b => getFn s w a b
  | .meth, a, b => getMeth s w a b

/-! ### writes -/

/-- the new record shadows any older one under the same key (a dict assignment); the ghost fields
    are stored in key order, so the record does not depend on the argument order -/
def write (s : State α) (a b : Nat) (corr cov sa sb : α) : State α :=
  { s with store := (key a b, if a ≤ b then ⟨corr, cov, sa, sb⟩ else ⟨corr, cov, sb, sa⟩) :: s.store }

/-- `MeasuredValue.set_covariance / set_correlation` (self = a, a measurement) -/
def setMeasured (s : State α) (w : Which) (a b : Nat) (v : Option α) : State α × Out α :=
  let qa := qty s a
  let qb := qty s b
  if !qb.kind.isEV then (s, .reject)
  else if !qb.kind.measured then (s, .reject)
  else if zeroSigmaSet w qa.std qb.std then (s, .reject)
  else
    match v with
    | none => (s, .reject)
    | some x =>
      match w with
      | .cov =>
        let c := Gen.corrOfCov x qa.std qb.std
        if Gen.covBoundBad c then (s, .reject)
        else (write s a b c x qa.std qb.std, .ok)
      | .corr =>
        if outOfRange x then (s, .reject)
        else (write s a b x (Gen.covOfCorr x qa.std qb.std) qa.std qb.std, .ok)

/-- what `RepeatedlyMeasuredValue.set_x` fills in when no number is given and the other operand
    is a repeated measurement too: the sample covariance of the reading arrays (clipped to the
    Cauchy–Schwarz bound), or nothing when the lengths differ.  Arrays with individual
    uncertainties are not plain arrays; the code cannot infer from them. -/
def infer (qa qb : Qty α) (w : Which) : Option α :=
  if qa.raw.length != qb.raw.length || !qa.plain || !qb.plain then none
  else
    let cov := Stats.cov1 qa.raw qb.raw
    match w with
    | .cov => some (Gen.inferCov cov qa.std qb.std)
    | .corr => some (Gen.inferCorr cov qa.std qb.std)

/-- `RepeatedlyMeasuredValue.set_covariance / set_correlation` (self = a) -/
def setRepeated (s : State α) (w : Which) (a b : Nat) (v : Option α) : State α × Out α :=
  let qa := qty s a
  let qb := qty s b
  if !qb.kind.isEV then (s, .reject)
  else if !qb.kind.measured then (s, .reject)
  else
    let v' := match v with
      | some x => some x
      | none => if qb.kind = .repeated then infer qa qb w else none
    setMeasured s w a b v'

/-- method form `a.set_x(b, v)` -/
def setMeth (s : State α) (w : Which) (a b : Nat) (v : Option α) : State α × Out α :=
  match (qty s a).kind with
  | .single => setMeasured s w a b v
  | .repeated => setRepeated s w a b v
  | _ => (s, .reject)     -- UndefinedActionError for derived values / constants

/-- function form `q.set_x(a, b, v)` -/
def setFn (s : State α) (w : Which) (a b : Nat) (v : Option α) : State α × Out α :=
  if !(qty s a).kind.isEV || !(qty s b).kind.isEV then (s, .reject)
  else setMeth s w a b v

def setStd (s : State α) (i : Nat) (x : α) : State α × Out α :=
  match s.qs[i]? with
  | some q =>
    if q.kind = .single then
      if Num.lt x zero then (s, .reject)
      else ({ s with qs := s.qs.set i { q with std := x } }, .ok)
    else (s, .reject)
  | none => (s, .reject)

def step (s : State α) : Op α → State α × Out α
  | .setStd i x => setStd s i x
  | .set w .fn a b v => setFn s w a b v
  | .set w .meth a b v => setMeth s w a b v
  | .get w f a b => (s, get s w f a b)
  | .reset => ({ s with store := [] }, .ok)

/-- run a history, collecting the outputs -/
def run (s : State α) : List (Op α) → State α × List (Out α)
  | [] => (s, [])
  | op :: rest =>
    let (s1, o) := step s op
    let (s2, os) := run s1 rest
    (s2, o :: os)

/-- final state only -/
def exec (s : State α) (ops : List (Op α)) : State α := ops.foldl (fun s op => (step s op).1) s

end QExPy.Corr

/-
  What a later calculation reads from a repeated measurement: the formula `k * a + c` propagated
  by the derivative method from the (value, uncertainty) pair in use (C10 "used downstream").
-/
import QExPy.Model.Expr

namespace QExPy.Stats
variable {α : Type} [Num α]

/-- `(k * a + c).value / .error` where `a` currently has `value ± error` -/
def downstream (k c value error : α) : α × α :=
  Expr.propagate (fun _ => value) (fun _ => error) (fun _ _ => Num.ofNat 0)
    (.bin .add (.bin .mul (.const k) (.var 0)) (.const c))

/-- A later calculation written in terms of INTERMEDIATE RESULTS: `mid = k * a` and `mid2 = mid + c`
    were made (and read) earlier, the new calculation is `1 * mid2`.  A calculated quantity is not a
    source: `_evaluate_formula` and the derivative walk go through it down to the measurement, so the
    tree that is propagated is the intermediate results' formulas put in their place -- evaluated at
    the value and uncertainty the measurement has NOW (nothing an intermediate result displayed
    earlier is re-used). -/
def downstreamVia (k c value error : α) : α × α :=
  Expr.propagate (fun _ => value) (fun _ => error) (fun _ _ => Num.ofNat 0)
    (.bin .mul (.const (Num.ofNat 1)) (.bin .add (.bin .mul (.const k) (.var 0)) (.const c)))

/-- `mid * mid` where `mid = k * a` was made earlier: a calculation that is NOT linear in the
    intermediate result, so the derivative rules need the intermediate's central value -- it, too, is
    the formula evaluated at the measurement's value NOW. -/
def downstreamSq (k value error : α) : α × α :=
  Expr.propagate (fun _ => value) (fun _ => error) (fun _ _ => Num.ofNat 0)
    (.bin .mul (.bin .mul (.const k) (.var 0)) (.bin .mul (.const k) (.var 0)))

end QExPy.Stats

/-! ### two repeated measurements in one later calculation

`DerivativeEvaluator.__evaluate` reads the uncertainty IN USE of every source in the quadrature
terms and `__find_cov_terms` rebuilds the covariance of a pair from the recorded correlation factor
and, again, the two uncertainties in use.  The formulas below are the trees Python builds for
`k1*a + k2*b + c`, `a - b`, `a * b`, `a / b`. -/

namespace QExPy.Stats
variable {α : Type} [Num α]

inductive Shape2 where
  | lin | sub | prod | quot
  deriving DecidableEq, Repr, Inhabited

def Shape2.all : List Shape2 := [.lin, .sub, .prod, .quot]
def Shape2.name : Shape2 → String
  | .lin => "lin" | .sub => "sub" | .prod => "prod" | .quot => "quot"
def Shape2.ofName? (s : String) : Option Shape2 := Shape2.all.find? (·.name == s)

/-- the formula tree over `a = var 0`, `b = var 1` -/
def expr2 (s : Shape2) (k1 k2 c : α) : Expr α :=
  match s with
  | .lin => .bin .add (.bin .add (.bin .mul (.const k1) (.var 0)) (.bin .mul (.const k2) (.var 1)))
              (.const c)
  | .sub => .bin .sub (.var 0) (.var 1)
  | .prod => .bin .mul (.var 0) (.var 1)
  | .quot => .bin .div (.var 0) (.var 1)

/-- value and uncertainty of the formula when `a` currently has `va ± ea`, `b` has `vb ± eb` and the
    recorded correlation factor of the pair is `rho` -/
def downstream2 (s : Shape2) (k1 k2 c va ea vb eb rho : α) : α × α :=
  Expr.propagate (fun i => if i = 0 then va else vb) (fun i => if i = 0 then ea else eb)
    (fun _ _ => rho) (expr2 s k1 k2 c)

end QExPy.Stats

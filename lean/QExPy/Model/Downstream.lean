/-
  What a later calculation reads from a repeated measurement: the formula `k * a + c` propagated
  by the derivative method from the (value, uncertainty) pair in use (C10 "used downstream").
-/
import QExPy.Model.Expr

namespace QExPy.Stats
variable {α : Type} [Num α]

/-- `(k * a + c).value / .error` where `a` currently has `value ± error` -/
def downstream (k c value error : α) : α × α :=
  Expr.propagate (fun _ => value) (fun _ => error) (fun _ _ => Num.ofNat 0)
    (.bin .add (.bin .mul (.const k) (.var 0)) (.const c))

end QExPy.Stats

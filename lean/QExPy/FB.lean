/-
  `FB` — a Float together with a running first-order bound on its rounding error.

  Third `Num` instance (besides Float and ℝ): every model output computed at `FB`
  carries an a-priori error bound, which the correspondence check uses as the
  *conditioned tolerance* when it compares the Float model with the Float
  implementation (DESIGN §3.4).  Not used in any theorem.
-/
import QExPy.Num
namespace QExPy

structure FB where
  v : Float
  e : Float
  deriving Inhabited

namespace FB
/-- relative error allowed per elementary operation (a few ulp: libm / numpy SIMD differences) -/
def eps : Float := 1e-15

def mk' (v e : Float) : FB := ⟨v, e + eps * v.abs⟩
def exact (v : Float) : FB := ⟨v, 0.0⟩
def lift (f : Float → Float) (d : Float → Float) (a : FB) : FB :=
  let v := f a.v
  mk' v ((d a.v).abs * a.e)
end FB

instance : Num FB where
  add a b := FB.mk' (a.v + b.v) (a.e + b.e)
  sub a b := FB.mk' (a.v - b.v) (a.e + b.e)
  mul a b := FB.mk' (a.v * b.v) (a.v.abs * b.e + b.v.abs * a.e + a.e * b.e)
  div a b := FB.mk' (a.v / b.v) (a.e / b.v.abs + (a.v / (b.v * b.v)).abs * b.e)
  pow a b :=
    let v := Float.pow a.v b.v
    let da := (b.v * Float.pow a.v (b.v - 1.0)).abs * a.e
    let db := if b.e == 0.0 then 0.0 else (v * Float.log a.v.abs).abs * b.e
    FB.mk' v (da + db)
  neg a := ⟨-a.v, a.e⟩
  sqrt := FB.lift Float.sqrt (fun x => 0.5 / Float.sqrt x)
  exp := FB.lift Float.exp Float.exp
  log := FB.lift Float.log (fun x => 1.0 / x)
  log10 := FB.lift Float.log10 (fun x => 1.0 / (x * Float.log 10.0))
  sin := FB.lift Float.sin Float.cos
  cos := FB.lift Float.cos Float.sin
  tan := FB.lift Float.tan (fun x => 1.0 / (Float.cos x * Float.cos x))
  asin := FB.lift Float.asin (fun x => 1.0 / Float.sqrt (1.0 - x * x))
  acos := FB.lift Float.acos (fun x => 1.0 / Float.sqrt (1.0 - x * x))
  atan := FB.lift Float.atan (fun x => 1.0 / (1.0 + x * x))
  abs a := ⟨a.v.abs, a.e⟩
  ofNat n := FB.exact (Float.ofNat n)
  pi := FB.exact 3.141592653589793
  isZero a := a.v == 0.0
  lt a b := a.v < b.v
  le a b := a.v ≤ b.v

end QExPy

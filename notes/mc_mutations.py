#!/venv/bin/python
"""apply one hand-made mutation to the worktree, run the 47 tests and the check, restore"""
import os, subprocess, sys, json, re
REPO = "/work/aM/repo"
VERIF = "/work/aM/verif"
MUT = {
 "c02-ddof0": ("C02", "qexpy/data/operations.py", "np.std(self.samples, ddof=1))", "np.std(self.samples, ddof=0))"),
 "c02-std-not-error": ("C02", "qexpy/data/operations.py", "    _std = measurement.error\n", "    _std = measurement.std\n"),
 "c02-transpose": ("C02", "qexpy/data/utils.py", "np.dot(chelosky_decomposition, sample_vector)", "np.dot(chelosky_decomposition.T, sample_vector)"),
 "c02-keep-nonfinite": ("C02", "qexpy/data/operations.py", "        result_data_set = result_data_set[np.isfinite(result_data_set)]\n", "        result_data_set = result_data_set[~np.isnan(result_data_set)]\n"),
 "c02-no-filter": ("C02", "qexpy/data/operations.py", "        result_data_set = result_data_set[np.isfinite(result_data_set)]\n", ""),
 "c02-per-size-ignored": ("C02", "qexpy/data/utils.py", "        return set_size if set_size else default_size\n", "        return default_size\n"),
 "c16-stale-mode-cache": ("C16", "qexpy/data/utils.py", "        if lit.MC_MODE_AND_CONFIDENCE in self.__evaluator.values:\n            self.__evaluator.values.pop(lit.MC_MODE_AND_CONFIDENCE)\n", ""),
 "c16-samples-no-copy": ("C16", "qexpy/data/utils.py", "        return self.__evaluator.raw_samples.copy()\n", "        return self.__evaluator.raw_samples\n"),
 "c16-walk-count0": ("C16", "qexpy/utils/utils.py", "    count = n[max_idx]\n", "    count = 0\n"),
 "c16-range-keeps-cache": ("C16", "qexpy/data/utils.py", "            self.__settings[lit.XRANGE] = new_range\n\n        self.__evaluator.values.clear()\n", "            self.__settings[lit.XRANGE] = new_range\n"),
 "c16-walk-last-argmax": ("C16", "qexpy/utils/utils.py", "    max_idx = n.argmax()\n", "    max_idx = len(n) - 1 - n[::-1].argmax()\n"),
 "c16-conf-redraws": ("C16", "qexpy/data/utils.py", "        self.__settings[lit.MONTE_CARLO_CONFIDENCE] = new_level\n", "        self.__settings[lit.MONTE_CARLO_CONFIDENCE] = new_level\n        self.__evaluator.clear()\n"),
}
def run(name):
    pid, path, old, new = MUT[name]
    fn = os.path.join(REPO, path)
    src = open(fn).read()
    assert src.count(old) == 1, (name, src.count(old))
    open(fn, "w").write(src.replace(old, new))
    try:
        t = subprocess.run(["/venv/bin/python", "-m", "pytest", "-q", "-p", "no:cacheprovider"], cwd=REPO, capture_output=True, text=True)
        tests = t.stdout.strip().splitlines()[-1]
        env = dict(os.environ, QEXPY_REPO=REPO)
        c = subprocess.run(["./check", pid], cwd=VERIF, capture_output=True, text=True, env=env)
        out = c.stdout.strip().splitlines()
        viol = [l for l in out if l.startswith("VIOLATION")]
        info = ""
        if viol:
            m = re.search(r"replay=(\S+)", viol[0])
            rp = json.load(open(os.path.join(VERIF, m.group(1))))
            f = rp.get("failure", {})
            info = "{} | {} | {}".format(f.get("signature"), (f.get("what") or "")[:110], (f.get("input") or "")[:160])
        print("{:24s} tests[{}] check rc={} {} :: {}".format(name, tests, c.returncode, viol[0] if viol else out[-1], info))
    finally:
        subprocess.run(["git", "-C", REPO, "checkout", "--", "."], check=True)
for n in (sys.argv[1:] or list(MUT)):
    run(n)

#!/venv/bin/python
"""Hand-made changes for the round-5 hardening of C04 / C09 / C10 / C11 (after seeded changes C04-9,
C09-9, C10-7, C10-8, C11-9): apply one to a private checkout of the library, run the 47 tests and the
property's check (quick tier), replay the reported file with and without the change, restore.
usage: QEXPY_REPO=<private checkout> notes/hE_mutations.py [name ...]      (no name = all)"""
import os, subprocess, sys, json, re
REPO = os.environ.get("QEXPY_REPO", "/work/hE/repo")
VERIF = os.path.dirname(os.path.dirname(os.path.abspath(__file__)))
U, O, D, S, ST = ("qexpy/data/utils.py", "qexpy/data/operations.py", "qexpy/data/data.py",
                  "qexpy/data/datasets.py", "qexpy/settings/settings.py")
MUT = {
 # ---------------- C04: identity of a quantity
 "c04-id-from-numpy-generator": ("C04", D,
    "        self._id = uuid.uuid4()  # type: uuid.UUID\n",
    "        self._id = uuid.UUID(bytes=np.random.bytes(16), version=4)  # type: uuid.UUID\n"),
 "c04-get-correlation-same-by-value-and-error": ("C04", D,
    "        if self._id == other._id:\n            return 1  # values have unit correlation with themselves\n",
    "        if self == other and self.error == other.error:\n            return 1  # values have unit correlation with themselves\n"),
 "c04-get-covariance-same-by-equality": ("C04", D,
    "        if self._id == other._id:\n            # The covariance between a measurement and itself is the variance\n",
    "        if self == other:\n            # The covariance between a measurement and itself is the variance\n"),
 # ---------------- C09: rejected requests
 "c09-sig-fig-setter-assigns-before-validating": ("C09", ST,
    "        if isinstance(new_value, int) and new_value > 0:\n            self.__config[lit.SIG_FIGS][lit.SIG_FIG_VALUE] = new_value\n        else:\n",
    "        if isinstance(new_value, (int, float)) and new_value == new_value:\n            self.__config[lit.SIG_FIGS][lit.SIG_FIG_VALUE] = max(1, int(new_value))\n"
    "        if not (isinstance(new_value, int) and new_value > 0):\n"),
 "c09-bad-style-falls-back-to-default-then-raises": ("C09", ST,
    "        else:\n            raise ValueError(\"Invalid print style!\")\n",
    "        else:\n            self.__config[lit.PRINT_STYLE] = PrintStyle.DEFAULT\n            raise ValueError(\"Invalid print style!\")\n"),
 "c09-error-setter-mode-first": ("C09", ST,
    "        self.sig_fig_value = new_sig_figs\n        self.__config[lit.SIG_FIGS][lit.SIG_FIG_MODE] = SigFigMode.ERROR\n",
    "        self.__config[lit.SIG_FIGS][lit.SIG_FIG_MODE] = SigFigMode.ERROR\n        self.sig_fig_value = new_sig_figs\n"),
 # ---------------- C10: intermediate results, equal central values
 "c10-derivative-rules-read-buffered-operand-value": ("C10", O,
    "        return _evaluate_formula(self._operand)\n",
    "        return self._operand.value\n"),
 "c10-evaluate-formula-returns-buffered-nested-value": ("C10", O,
    "    if isinstance(formula, dt.DerivedValue):\n        return _evaluate_formula(formula._formula, samples)\n",
    "    if isinstance(formula, dt.DerivedValue):\n        if samples is None and formula.error_method == sts.ErrorMethod.DERIVATIVE:\n"
    "            return formula.value\n        return _evaluate_formula(formula._formula, samples)\n"),
 "c10-get-correlation-same-by-equality": ("C10", D,
    "        if self._id == other._id:\n            return 1  # values have unit correlation with themselves\n",
    "        if self == other:\n            return 1  # values have unit correlation with themselves\n"),
 # ---------------- C11: a single operand that is not independent of the array
 "c11-truediv-copies-derived-divisor": ("C11", S,
    "            return super().__truediv__(other)\n        return super().__truediv__(dut.wrap_in_experimental_value(other))\n",
    "            return super().__truediv__(other)\n        other = dut.wrap_in_experimental_value(other)\n"
    "        if isinstance(other, dt.DerivedValue):\n            other = dt.MeasuredValue(other.value, other.error, unit=other.unit)\n"
    "        return super().__truediv__(other)\n"),
 "c11-radd-copies-measurement": ("C11", S,
    "            return super().__radd__(other)\n        return super().__radd__(dut.wrap_in_experimental_value(other))\n",
    "            return super().__radd__(other)\n        other = dut.wrap_in_experimental_value(other)\n"
    "        if type(other) is dt.MeasuredValue:\n            other = dt.MeasuredValue(other.value, other.error, unit=other.unit, name=other.name)\n"
    "        return super().__radd__(other)\n"),
}


def run(name):
    pid, path, old, new = MUT[name]
    fn = os.path.join(REPO, path)
    src = open(fn).read()
    assert src.count(old) == 1, (name, path, src.count(old))
    open(fn, "w").write(src.replace(old, new))
    env = dict(os.environ, QEXPY_REPO=REPO, MPLBACKEND="Agg")
    rp = None
    try:
        t = subprocess.run(["/venv/bin/python", "-m", "pytest", "-q", "-p", "no:cacheprovider"], cwd=REPO,
                           capture_output=True, text=True)
        tests = t.stdout.strip().splitlines()[-1]
        c = subprocess.run(["./check", pid], cwd=VERIF, capture_output=True, text=True, env=env)
        out = c.stdout.strip().splitlines()
        viol = [l for l in out if l.startswith("VIOLATION")]
        info, r1 = "", None
        if viol:
            m = re.search(r"replay=(\S+)", viol[0])
            rp = os.path.join(VERIF, m.group(1))
            f = json.load(open(rp)).get("failure", {})
            info = "{} | {} | {}".format(f.get("signature"), (f.get("what") or "")[:110],
                                         str(f.get("input") or "")[:260])
            r1 = subprocess.run(["./check", pid, "--replay", rp], cwd=VERIF, capture_output=True, env=env).returncode
    finally:
        subprocess.run(["git", "-C", REPO, "checkout", "--", "."], check=True)
    r0 = subprocess.run(["./check", pid, "--replay", rp], cwd=VERIF, capture_output=True,
                        env=env).returncode if rp else None
    print("{:48s} tests[{}] check rc={} {} replay with/without={}/{} :: {}".format(
        name, tests, c.returncode, viol[0] if viol else out[-1], r1, r0, info), flush=True)


for n in (sys.argv[1:] or list(MUT)):
    run(n)

#!/venv/bin/python
"""Hand-made changes for hardening C02 / C06 / C07 / C10 / C14 (round after seeded changes C02-3,
C02-4, C06-3, C06-4, C07-4, C10-4, C14-4): apply one to a private checkout of the library, run the
47 tests and the property's check (quick tier), restore.
usage: QEXPY_REPO=<private checkout> notes/bz_mutations.py [name ...]      (no name = all)
A mutation is (property, file, old text, new text) or (property, [(file, old, new), ...])."""
import os, subprocess, sys, json, re
REPO = os.environ.get("QEXPY_REPO", "/work/bZ/mut/repo")
VERIF = os.path.dirname(os.path.dirname(os.path.abspath(__file__)))
U, O, D, S, X = ("qexpy/data/utils.py", "qexpy/data/operations.py", "qexpy/data/data.py",
                 "qexpy/data/datasets.py", "qexpy/utils/utils.py")
F, FU, PO, PL = ("qexpy/fitting/fitting.py", "qexpy/fitting/utils.py", "qexpy/plotting/plotobjects.py",
                 "qexpy/plotting/plotting.py")
MUT = {
 # ---------------- C02: histories (source edits, correlations, sizes), special central values
 "c02-recalc-keeps-samples": ("C02", D,
    "        for evaluator in self.__evaluators.values():\n            evaluator.clear()\n",
    "        for evaluator in self.__evaluators.values():\n            if hasattr(evaluator, \"raw_samples\"):\n"
    "                evaluator.values.clear()  # the samples are expensive, keep them\n            else:\n                evaluator.clear()\n"),
 "c02-global-size-remembered": ("C02", U,
    "        default_size = sts.get_settings().monte_carlo_sample_size\n        set_size = self.__settings[lit.MONTE_CARLO_SAMPLE_SIZE]\n",
    "        if not hasattr(self, \"_default_size\"):\n            self._default_size = sts.get_settings().monte_carlo_sample_size\n"
    "        default_size = self._default_size\n        set_size = self.__settings[lit.MONTE_CARLO_SAMPLE_SIZE]\n"),
 "c02-sigma-from-relative-error": ("C02", O, "    _std = measurement.error\n",
    "    _std = abs(measurement.relative_error * measurement.value)\n"),
 "c02-cholesky-remembered-per-sources": ("C02", U,
    "        chelosky_decomposition = np.linalg.cholesky(corr_matrix)\n",
    "        key = tuple(v._id for v in variables)\n        if key not in _FACTORS:\n            _FACTORS[key] = np.linalg.cholesky(corr_matrix)\n"
    "        chelosky_decomposition = _FACTORS[key]\n"),
 "c02-size-setter-skips-equal-effective (harmless)": ("C02", U,
    "        self.__settings[lit.MONTE_CARLO_SAMPLE_SIZE] = new_size\n        self.__evaluator.clear()\n",
    "        same = new_size == self.sample_size\n        self.__settings[lit.MONTE_CARLO_SAMPLE_SIZE] = new_size\n"
    "        if not same:\n            self.__evaluator.clear()\n"),
 # ---------------- C06: offset abscissae, closed-form fits with parguess, Plot.fit
 "c06-slope-step-per-point-magnitude": ("C06", F,
    "    return utils.numerical_derivative(func, xvalues, 1e-5 * np.ptp(xvalues))\n",
    "    return utils.numerical_derivative(func, xvalues, 1e-5 * np.abs(xvalues) + 1e-12)\n"),
 "c06-common-yerr-dropped": ("C06", F,
    "    yerr = y_to_fit.errors if any(err > 0 for err in y_to_fit.errors) else None\n",
    "    yerr = y_to_fit.errors if any(err > 0 for err in y_to_fit.errors) else None\n"
    "    if yerr is not None and np.ptp(yerr) == 0:\n        yerr = None  # equal weights are no weights\n"),
 "c06-plot-fit-target-drops-xerr": ("C06", PO,
    "    def fit_target_dataset(self) -> dts.XYDataSet:\n        return self.dataset\n",
    "    def fit_target_dataset(self) -> dts.XYDataSet:\n        return dts.XYDataSet(self.dataset.xvalues, self.dataset.yvalues, yerr=self.dataset.yerr)\n"),
 "c06-poly-with-parguess-folds-xerr": ("C06", F,
    "    if fit_model.name in [lit.POLY, lit.LIN, lit.QUAD]:\n",
    "    if fit_model.name in [lit.POLY, lit.LIN, lit.QUAD] and not (\n            kwargs.get(\"parguess\") and any(err > 0 for err in x_to_fit.errors)):\n"),
 "c06-slope-forward-difference (harmless)": ("C06", X,
    "    return (function(x0 + dx) - function(x0 - dx)) / (2 * dx)\n",
    "    return (function(x0 + dx / 64) - function(x0 - dx / 64)) / (dx / 32)\n"),
 # ---------------- C07: fit_function evaluated in histories
 "c07-list-result-remembered": ("C07", F,
    "    result_func = utils.vectorize(lambda x: func(x, *params))\n",
    "    plain = utils.vectorize(lambda x: func(x, *params))\n    seen = {}\n\n    def result_func(x):\n"
    "        if isinstance(x, list):\n            key = tuple(x)\n            if key not in seen:\n                seen[key] = plain(x)\n"
    "            return list(seen[key])\n        return plain(x)\n"),
 "c07-drawing-rebinds-fit-function": ("C07", PO,
    "        self.func_on_plot = FunctionOnPlot(\n            result.fit_function, xrange=self._xrange, error_method=lit.MONTE_CARLO, **kwargs)\n",
    "        self.func_on_plot = FunctionOnPlot(\n            result.fit_function, xrange=self._xrange, error_method=lit.MONTE_CARLO, **kwargs)\n"
    "        plain, band = result.fit_function, self.func_on_plot\n\n        def with_band(x):\n            res = plain(x)\n"
    "            for val in (res if isinstance(res, (list, np.ndarray)) else [res]):\n                if isinstance(val, dt.DerivedValue):\n"
    "                    val.error_method = band.error_method\n            return res\n"
    "        result._result = result._result._replace(func=with_band)\n"),
 "c07-memo-by-rounded-x": ("C07", F,
    "    result_func = utils.vectorize(lambda x: func(x, *params))\n",
    "    seen = {}\n\n    def at(x):\n        if isinstance(x, dt.ExperimentalValue):\n            return func(x, *params)\n"
    "        key = round(float(x), 9)\n        if key not in seen:\n            seen[key] = float(x)\n        return func(seen[key], *params)\n\n"
    "    result_func = utils.vectorize(at)\n"),
 "c07-results-pinned-to-derivative (harmless)": ("C07", F,
    "    result_func = utils.vectorize(lambda x: func(x, *params))\n",
    "    def pinned(x):\n        res = func(x, *params)\n        if isinstance(res, dt.DerivedValue):\n            res.error_method = \"derivative\"\n        return res\n\n"
    "    result_func = utils.vectorize(pinned)\n"),
 # ---------------- C10: the selected statistic in BOTH error methods
 "c10-mc-centre-is-the-mean": ("C10", O, "    center_value = measurement.value\n",
    "    center_value = getattr(measurement, \"mean\", measurement.value)\n"),
 "c10-mc-sigma-is-error-on-mean": ("C10", O, "    _std = measurement.error\n",
    "    _std = getattr(measurement, \"error_on_mean\", measurement.error)\n"),
 "c10-use-std-sticky": ("C10", D,
    "    def use_std_for_uncertainty(self):\n        \"\"\"Sets the uncertainty of this value to the standard deviation\"\"\"\n        self._error = self._std\n",
    "    def use_std_for_uncertainty(self):\n        \"\"\"Sets the uncertainty of this value to the standard deviation\"\"\"\n        self._error = self._std\n        self._error_on_mean = self._std\n"),
 "c10-wmean-equal-weights-shortcut (harmless)": ("C10", S,
    "        weights = np.asarray(list(1 / (err ** 2) for err in self.errors))\n        return float(np.sum(weights * self.values) / np.sum(weights))\n",
    "        if np.ptp(self.errors) == 0:\n            return float(np.mean(self.values))\n        weights = np.asarray(list(1 / (err ** 2) for err in self.errors))\n"
    "        return float(np.sum(weights * self.values) / np.sum(weights))\n"),
 # ---------------- C14: every creation/mutation path, rejected => unchanged
 "c14-fix-685266c-reverted": ("C14", S,
    "            if error is not None:\n                _get_error_array_helper(data, error, None)\n\n        xdata = kwargs.pop(",
    "\n        xdata = kwargs.pop("),
 "c14-xy-validates-only-first-entry": ("C14", S,
    "        for data, error in ((xdata, xerr), (ydata, yerr)):\n            if isinstance(data, ExperimentalValueArray) and error is not None:\n                _get_error_array_helper(data, error, None)\n",
    "        for data, error in ((xdata, xerr), (ydata, yerr)):\n            if isinstance(data, ExperimentalValueArray) and error is not None:\n"
    "                _get_error_array_helper(data[:1], error[:1] if isinstance(error, ARRAY_TYPES) else error, None)\n"),
 "c14-rewrap-validates-lazily": ("C14", S,
    "        error_array = _get_error_array_helper(data, error, relative_error)\n\n        if all(isinstance(x, dt.ExperimentalValue) for x in data):\n",
    "        if all(isinstance(x, dt.ExperimentalValue) for x in data) and isinstance(error, ARRAY_TYPES) \\\n                and len(error) == len(data):\n"
    "            return ExperimentalValueArray.__wrap(data, error_array=error, **kwargs)\n"
    "        error_array = _get_error_array_helper(data, error, relative_error)\n\n        if all(isinstance(x, dt.ExperimentalValue) for x in data):\n"),
 "c14-setitem-bypasses-ctor": ("C14", S,
    "            super().__setitem__(\n                key, dut.wrap_in_measurement(value, unit=self.unit, name=self.name))\n",
    "            if isinstance(value, tuple) and len(value) == 2:\n                new = dut.wrap_in_measurement(value[0], unit=self.unit, name=self.name)\n"
    "                new._error = float(value[1])\n            else:\n                new = dut.wrap_in_measurement(value, unit=self.unit, name=self.name)\n"
    "            super().__setitem__(key, new)\n"),
}
PRE = {"c02-cholesky-remembered-per-sources": (U, "ARRAY_TYPES = np.ndarray, list\n",
                                               "ARRAY_TYPES = np.ndarray, list\n_FACTORS = {}\n"),
       }


def run(name):
    pid, path, old, new = MUT[name]
    edits = [(path, old, new)] + ([PRE[name]] if name in PRE else [])
    for path, old, new in edits:
        fn = os.path.join(REPO, path)
        src = open(fn).read()
        if name in PRE and (path, old, new) == PRE[name] and new.split("\n")[1] in src:
            continue
        assert src.count(old) == 1, (name, path, src.count(old))
        open(fn, "w").write(src.replace(old, new))
    try:
        t = subprocess.run(["/venv/bin/python", "-m", "pytest", "-q", "-p", "no:cacheprovider"], cwd=REPO,
                           capture_output=True, text=True)
        tests = t.stdout.strip().splitlines()[-1]
        env = dict(os.environ, QEXPY_REPO=REPO, MPLBACKEND="Agg")
        c = subprocess.run(["./check", pid], cwd=VERIF, capture_output=True, text=True, env=env)
        out = c.stdout.strip().splitlines()
        viol = [l for l in out if l.startswith("VIOLATION")]
        info = ""
        if viol:
            m = re.search(r"replay=(\S+)", viol[0])
            rp = json.load(open(os.path.join(VERIF, m.group(1))))
            f = rp.get("failure", {})
            info = "{} | {} | {}".format(f.get("signature"), (f.get("what") or "")[:110],
                                         str(f.get("input") or "")[:200])
            if not f:
                info = "broken: " + "; ".join(rp.get("no_longer_checks", []))[:300]
        print("{:48s} tests[{}] check rc={} {} :: {}".format(name, tests, c.returncode,
                                                            viol[0] if viol else out[-1], info), flush=True)
    finally:
        subprocess.run(["git", "-C", REPO, "checkout", "--", "."], check=True)


for n in (sys.argv[1:] or list(MUT)):
    run(n)

#!/venv/bin/python
"""Hand-made changes for hardening C02 / C10 / C14 (and C16 where it shares the code): apply one to
the private worktree, run the 47 tests and the property's check (quick tier), restore.
usage: notes/bx_mutations.py [name ...]      (no name = all)"""
import os, subprocess, sys, json, re
REPO = os.environ.get("QEXPY_REPO", "/work/bX/repo")
VERIF = os.path.dirname(os.path.dirname(os.path.abspath(__file__)))
U, O, D, S, X = ("qexpy/data/utils.py", "qexpy/data/operations.py", "qexpy/data/data.py",
                 "qexpy/data/datasets.py", "qexpy/utils/utils.py")
MUT = {
 # ---------------- C02
 "c02-size-larger-wins": ("C02", U, "        return set_size if set_size else default_size\n",
                          "        return max(set_size, default_size)\n"),
 "c02-row-order": ("C02", O, "        for _id, sample in zip(source_meas_ids, sample_set):\n",
                   "        for _id, sample in zip(sorted(source_meas_ids, key=str), sample_set):\n"),
 "c02-clear-keeps-values": ("C02", O, "        self.raw_samples = np.empty(0)\n        self.values.clear()\n",
                            "        self.raw_samples = np.empty(0)\n"),
 "c02-size-setter-no-clear": ("C02", U, "        self.__settings[lit.MONTE_CARLO_SAMPLE_SIZE] = new_size\n        self.__evaluator.clear()\n",
                              "        self.__settings[lit.MONTE_CARLO_SAMPLE_SIZE] = new_size\n"),
 "c02-draw-global-size": ("C02", O, "        sample_size = self.settings.sample_size\n",
                          "        sample_size = sts.get_settings().monte_carlo_sample_size\n"),
 "c02-cov-matrix": ("C02", U, "[[dt.get_correlation(row, col) for col in variables]", "[[dt.get_covariance(row, col) for col in variables]"),
 "c02-shortcut-first-row": ("C02", U, "    if np.count_nonzero(corr_matrix - np.diag(np.diagonal(corr_matrix))) == 0:\n",
                            "    if np.count_nonzero(corr_matrix[0]) == 1:\n"),
 "c02-shortcut-upper-sum": ("C02", U, "    if np.count_nonzero(corr_matrix - np.diag(np.diagonal(corr_matrix))) == 0:\n",
                            "    if np.sum(np.triu(corr_matrix, 1)) == 0:\n"),
 "c02-center-mean": ("C02", O, "    center_value = measurement.value\n",
                     "    center_value = getattr(measurement, \"mean\", measurement.value)\n"),
 "c02-sigma-error-on-mean": ("C02", O, "    _std = measurement.error\n",
                             "    _std = getattr(measurement, \"error_on_mean\", measurement.error)\n"),
 "c02-mode-cached-as-mean": ("C02", O, "        if strategy == lit.MC_MEAN_AND_STD not in self.values:\n",
                             "        if strategy == lit.MC_MEAN_AND_STD and not self.values:\n"),
 "c02-use-mean-no-op-after-custom": ("C02", O, "            strategy = lit.MC_MEAN_AND_STD\n            self.settings.use_mean_and_std()\n",
                                     "            strategy = lit.MC_MEAN_AND_STD\n"),
 "c02-standard-normal (harmless)": ("C02", U, "np.random.normal(0, 1, sample_size)", "np.random.standard_normal(sample_size)"),
 "c02-warn-uses-actual-size (harmless)": ("C02", O, "        if len(result_data_set) / sts.get_settings().monte_carlo_sample_size < 0.9:\n",
                                          "        if len(result_data_set) / sample_size < 0.9:\n"),
 # ---------------- C10
 "c10-sem-ddof0": ("C10", S, "        return self.std() / m.sqrt(self.size)\n", "        return self.std(ddof=0) / m.sqrt(self.size)\n"),
 "c10-sem-equivalent (harmless)": ("C10", S, "        return self.std() / m.sqrt(self.size)\n",
                                   "        return self.std(ddof=0) / m.sqrt(self.size - 1)\n"),
 "c10-std-default-ddof0": ("C10", S, "    def std(self, ddof=1, **_) -> float:", "    def std(self, ddof=0, **_) -> float:"),
 "c10-wmean-all-zero-guard": ("C10", S, "        if any(err == 0 for err in self.errors):\n            warnings.warn(\n                \"One or more errors are 0, the propagated error cannot be calculated.\")",
                              "        if all(err == 0 for err in self.errors):\n            warnings.warn(\n                \"One or more errors are 0, the propagated error cannot be calculated.\")"),
 "c10-perr-guard-truthy": ("C10", D, "        if not np.isnan(propagated_error):\n            self._error = propagated_error\n",
                           "        if propagated_error > 0.1 or np.isinf(propagated_error):\n            self._error = propagated_error\n"),
 "c10-wmean-guard-positive": ("C10", D, "        if not np.isnan(error_weighted_mean):\n", "        if error_weighted_mean > 0 or error_weighted_mean < 0:\n"),
 "c10-unequal-truncates": ("C10", X, "    if len(arr_x) != len(arr_y):\n        raise ValueError(\"Cannot calculate covariance for arrays of different lengths.\")\n", ""),
 "c10-use-std-after-wmean-resets-value": ("C10", D, "        self._error = self._std\n", "        self._error = self._std\n        self._value = self._mean\n"),
 "c10-sem-of-selected": ("C10", D, "        self._error = self._error_on_mean\n", "        self._error = self._std / np.sqrt(len(self._raw_data) - (self._value != self._mean))\n"),
 "c10-cov-no-clip": ("C10", D, "                cov = min(max(cov, -bound), bound)\n", ""),
 # ---------------- C14
 "c14-rel-no-abs-array": ("C14", S, "        error_array = float(rel_error) * abs(data)\n", "        error_array = float(rel_error) * np.asarray(data)\n"),
 "c14-rels-check-skipped": ("C14", S, "        error_array = rel_error * abs(data)\n    else:", "        return rel_error * np.asarray(data)\n    else:"),
 "c14-ctor-check-only-when-saved": ("C14", D, "        if error is not None and error < 0:\n            raise ValueError(\"The error must be a positive real number!\")\n        super().__init__(unit, name, save=save)",
                                    "        if error is not None and error < 0 and save:\n            raise ValueError(\"The error must be a positive real number!\")\n        super().__init__(unit, name, save=save)"),
 "c14-append-bypasses-ctor": ("C14", U, "    if isinstance(value, tuple) and len(value) == 2:\n        return dt.MeasuredValue(*value, **kwargs)\n",
                              "    if isinstance(value, tuple) and len(value) == 2:\n        m = dt.MeasuredValue(value[0], **kwargs)\n        m._error = float(value[1])\n        return m\n"),
 "c14-custom-no-sign-check": ("C14", U, "        if error < 0:\n            raise ValueError(\"The error must be a positive real number!\")\n        # the strategy", "        # the strategy"),
 "c14-custom-check-after-switch": ("C14", U, "        if error < 0:\n            raise ValueError(\"The error must be a positive real number!\")\n        # the strategy is switched only once the pair is known to be valid: a rejected request\n        # leaves the strategy, and so the reported value and uncertainty, as they were\n        self.__settings[lit.MONTE_CARLO_STRATEGY] = lit.MC_CUSTOM\n",
                                   "        self.__settings[lit.MONTE_CARLO_STRATEGY] = lit.MC_CUSTOM\n        if error < 0:\n            raise ValueError(\"The error must be a positive real number!\")\n"),
 "c14-mode-width-sign": ("C14", X, "    error = (high_idx - max_idx) * ((bins[-1] - bins[0]) / len(n))\n",
                         "    error = (max_idx - low_idx) * ((bins[-1] - bins[0]) / len(n)) if low_idx >= 0 else (low_idx - max_idx) * ((bins[0] - bins[-1]) / len(n)) * -1\n"),
 "c14-mode-halfwidth-upper-unclamped": ("C14", X, "    error = (high_idx - max_idx) * ((bins[-1] - bins[0]) / len(n))\n",
                                        "    error = (bins[(high_idx + 1) % len(bins)] - bins[max(low_idx, 0)]) / 2\n"),
 "c14-derived-value-setter-cast-first": ("C14", D, "        error = self.error\n        self.__class__ = MeasuredValue  # casting it to MeasuredValue\n        self.value, self.error = new_value, error\n",
                                          "        self.__class__ = MeasuredValue  # casting it to MeasuredValue\n        self.value, self.error = new_value, self.error\n"),
 "c14-mc-std-of-masked-negative": ("C14", O, "            result = dt.ValueWithError(np.mean(self.samples), np.std(self.samples, ddof=1))\n",
                                   "            result = dt.ValueWithError(np.mean(self.samples), np.mean(self.samples) - np.percentile(self.samples, 16))\n"),
}
def run(name):
    pid, path, old, new = MUT[name]
    fn = os.path.join(REPO, path)
    src = open(fn).read()
    assert src.count(old) == 1, (name, src.count(old))
    open(fn, "w").write(src.replace(old, new))
    try:
        t = subprocess.run(["/venv/bin/python", "-m", "pytest", "-q", "-p", "no:cacheprovider"], cwd=REPO, capture_output=True, text=True)
        tests = t.stdout.strip().splitlines()[-1]
        env = dict(os.environ, QEXPY_REPO=REPO)
        c = subprocess.run(["./check", pid], cwd=VERIF, capture_output=True, text=True, env=env)
        out = c.stdout.strip().splitlines()
        viol = [l for l in out if l.startswith("VIOLATION")]
        info = ""
        if viol:
            m = re.search(r"replay=(\S+)", viol[0])
            rp = json.load(open(os.path.join(VERIF, m.group(1))))
            f = rp.get("failure", {})
            info = "{} | {} | {}".format(f.get("signature"), (f.get("what") or "")[:110], (f.get("input") or "")[:160])
            if not f:
                info = "broken: " + "; ".join(rp.get("no_longer_checks", []))[:300]
        print("{:40s} tests[{}] check rc={} {} :: {}".format(name, tests, c.returncode, viol[0] if viol else out[-1], info), flush=True)
    finally:
        subprocess.run(["git", "-C", REPO, "checkout", "--", "."], check=True)
for n in (sys.argv[1:] or list(MUT)):
    run(n)

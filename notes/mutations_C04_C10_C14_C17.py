#!/venv/bin/python
"""apply hand-made mutations to the repo worktree one at a time, run the 47 tests and the check"""
import subprocess, sys, os, json, re
REPO = "/work/aD/repo"
DATA, DSETS, UTILS = "qexpy/data/data.py", "qexpy/data/datasets.py", "qexpy/utils/utils.py"
MUT = [
 ("C04", "write-before-bound-check", DATA,
  '''        # check that the result makes sense
        if corr > 1 or corr < -1:
            raise ValueError("The correlation factor: {} is non-physical".format(corr))
        cov = corr * (self.std * other.std)

        # register the correlation between these measurements
        id_string = "_".join(sorted([str(self._id), str(other._id)]))
        correlation_record = Correlation(corr, cov)
        ExperimentalValue._correlations[id_string] = correlation_record
''',
  '''        cov = corr * (self.std * other.std)

        # register the correlation between these measurements
        id_string = "_".join(sorted([str(self._id), str(other._id)]))
        correlation_record = Correlation(corr, cov)
        ExperimentalValue._correlations[id_string] = correlation_record
        # check that the result makes sense
        if corr > 1 or corr < -1:
            raise ValueError("The correlation factor: {} is non-physical".format(corr))
'''),
 ("C04", "bound-ge-instead-of-gt", DATA,
  '''        if corr > 1 or corr < -1:
            raise ValueError("The covariance: {} is non-physical".format(cov))''',
  '''        if corr >= 1 or corr < -1:
            raise ValueError("The covariance: {} is non-physical".format(cov))'''),
 ("C04", "ordered-key-in-set_covariance", DATA,
  '''        # register the correlation between these measurements
        id_string = "_".join(sorted([str(self._id), str(other._id)]))
        correlation_record = Correlation(corr, cov)
        ExperimentalValue._correlations[id_string] = correlation_record

    def get_correlation(''',
  '''        # register the correlation between these measurements
        id_string = "_".join([str(self._id), str(other._id)])
        correlation_record = Correlation(corr, cov)
        ExperimentalValue._correlations[id_string] = correlation_record

    def get_correlation('''),
 ("C04", "zero-sigma-check-dropped-in-set_correlation", DATA,
  '''        if self.std == 0 or other.std == 0:
            raise ArithmeticError("Cannot set correlation for values with 0 errors")''',
  '''        if self.std == 0 and other.std == 0:
            raise ArithmeticError("Cannot set correlation for values with 0 errors")'''),
 ("C10", "covariance-n-instead-of-n-1", UTILS,
  "return 1 / (len(arr_x) - 1) * sum(", "return 1 / len(arr_x) * sum("),
 ("C10", "use_error_on_mean-sets-std", DATA,
  '''        """Sets the uncertainty of this value to the error on the mean"""
        self._error = self._error_on_mean''',
  '''        """Sets the uncertainty of this value to the error on the mean"""
        self._error = self._std'''),
 ("C10", "weights-not-squared-in-weighted-mean", DSETS,
  '''        weights = np.asarray(list(1 / (err ** 2) for err in self.errors))
        return float(np.sum(weights * self.values) / np.sum(weights))''',
  '''        weights = np.asarray(list(1 / err for err in self.errors))
        return float(np.sum(weights * self.values) / np.sum(weights))'''),
 ("C10", "error_on_mean-sqrt-n-minus-1", DSETS,
  "return self.std() / m.sqrt(self.size)", "return self.std() / m.sqrt(self.size - 1)"),
 ("C14", "constructor-sign-check-removed", DATA,
  '''        if error is not None and error < 0:
            raise ValueError("The error must be a positive real number!")
        super().__init__(unit, name, save=save)''',
  '''        super().__init__(unit, name, save=save)'''),
 ("C14", "array-helper-checks-first-element-only", DSETS,
  "    if any(err < 0 for err in error_array):", "    if len(error_array) and error_array[0] < 0:"),
 ("C14", "derived-error-setter-validates-after-cast", DATA,
  '''        if new_error < 0:
            raise ValueError("The error must be a positive real number!")
        warnings.warn(
            "You are trying to override the propagated error of a derived quantity. This "
            "value is casted to a regular Measurement")
        value = self.value
        self.__class__ = MeasuredValue  # casting it to MeasuredValue''',
  '''        warnings.warn(
            "You are trying to override the propagated error of a derived quantity. This "
            "value is casted to a regular Measurement")
        value = self.value
        self.__class__ = MeasuredValue  # casting it to MeasuredValue
        if new_error < 0:
            raise ValueError("The error must be a positive real number!")'''),
 ("C14", "relative-error-abs-removed", DATA,
  "        new_error = abs(self.value) * float(relative_error)\n        self._error = new_error",
  "        new_error = self.value * float(relative_error)\n        self._error = new_error"),
 ("C17", "append-names-from-1", DSETS,
  '''        result = np.append(self, value).view(ExperimentalValueArray)
        for index, measurement in enumerate(result):
            measurement.name = "{}_{}".format(self.name, index)''',
  '''        result = np.append(self, value).view(ExperimentalValueArray)
        for index, measurement in enumerate(result):
            measurement.name = "{}_{}".format(self.name, index + 1)'''),
 ("C17", "setitem-pair-keeps-old-uncertainty", DSETS,
  '''            super().__setitem__(
                key, dut.wrap_in_measurement(value, unit=self.unit, name=self.name))''',
  '''            old_error = self[key].error
            super().__setitem__(
                key, dut.wrap_in_measurement(value, unit=self.unit, name=self.name))
            if isinstance(value, tuple):
                self[key].error = old_error'''),
 ("C17", "delete-does-not-reindex-names", DSETS,
  '''        result = np.delete(self, index).view(ExperimentalValueArray)
        for idx, measurement in enumerate(result):
            measurement.name = "{}_{}".format(self.name, idx)
        return result''',
  '''        name = self.name
        names = [x.name for x in self]
        result = np.delete(self, index).view(ExperimentalValueArray)
        kept = [n for i, n in enumerate(names) if i != (index % len(names))]
        for measurement, n in zip(result, kept):
            measurement.name = n
        return result'''),
 ("C17", "sum-error-linear-instead-of-quadrature", DSETS,
  "error = np.sqrt(np.sum(self.errors ** 2))", "error = np.sum(self.errors)"),
]

MUT += [
 ("C10", "std-ddof0-for-two-readings", DATA,
  "        self._std = self._raw_data.std(ddof=1)",
  "        self._std = self._raw_data.std(ddof=1 if len(data) > 2 else 0)"),
 ("C10", "weighted-mean-of-absolute-values", DSETS,
  "        return float(np.sum(weights * self.values) / np.sum(weights))",
  "        return float(np.sum(weights * np.abs(self.values)) / np.sum(weights))"),
 ("C10", "use_std-ignored-after-use_propagated", DATA,
  '''        """Sets the uncertainty of this value to the standard deviation"""
        self._error = self._std''',
  '''        """Sets the uncertainty of this value to the standard deviation"""
        if self._error != self._raw_data.propagated_error():
            self._error = self._std'''),
 ("C17", "insert-negative-index-off-by-one", DSETS,
  "        result = np.insert(self, index, value).view(ExperimentalValueArray)",
  "        result = np.insert(self, index if index >= 0 else index + 1 or len(self), value).view(ExperimentalValueArray)"),
 ("C17", "setitem-measurement-keeps-own-unit", "qexpy/data/utils.py",
  '''        value.name = kwargs.get("name", "")
        value.unit = kwargs.get("unit", "")''',
  '''        value.name = kwargs.get("name", "")'''),
 ("C17", "append-list-reversed", DSETS,
  '''        value = dut.wrap_in_value_array(value, unit=self.unit, name=self.name)
        result = np.append(self, value).view(ExperimentalValueArray)''',
  '''        value = dut.wrap_in_value_array(value, unit=self.unit, name=self.name)
        result = np.append(self, value[::-1]).view(ExperimentalValueArray)'''),
 ("C04", "reset-keeps-self-pairs", DATA,
  "    ExperimentalValue._correlations.clear()  # pylint: disable=protected-access",
  "    for k in [k for k in ExperimentalValue._correlations if len(ExperimentalValue._correlations) < 3]:\n        del ExperimentalValue._correlations[k]"),
]
only = sys.argv[1:] 
env = dict(os.environ, QEXPY_REPO=REPO)
rows = []
for pid, name, path, old, new in MUT:
    if only and pid not in only and name not in only:
        continue
    subprocess.run(["git", "-C", REPO, "checkout", "--", "."], check=True)
    fp = os.path.join(REPO, path)
    src = open(fp).read()
    if src.count(old) != 1:
        rows.append((pid, name, "PATTERN NOT FOUND x%d" % src.count(old), "", ""))
        continue
    open(fp, "w").write(src.replace(old, new))
    t = subprocess.run(["/venv/bin/python", "-m", "pytest", "-q", "-p", "no:cacheprovider", "-x"], cwd=REPO,
                       capture_output=True, text=True)
    tests = t.stdout.strip().splitlines()[-1] if t.stdout.strip() else "?"
    c = subprocess.run(["./check", pid], cwd="/work/aD/verif", capture_output=True, text=True, env=env)
    viol = [l for l in c.stdout.splitlines() if l.startswith("VIOLATION") or l.startswith("KNOWN")]
    what = ""
    m = re.search(r"replay=(\S+)", " ".join(viol))
    if m:
        try:
            rp = json.load(open(os.path.join("/work/aD/verif", m.group(1))))
            f = rp.get("failure", {})
            what = "{} | {}".format(f.get("signature"), str(f.get("input"))[:160])
        except Exception as e:
            what = "replay unreadable: %s" % e
    rows.append((pid, name, tests, "exit=%d %s" % (c.returncode, " ".join(viol)), what))
    subprocess.run(["git", "-C", REPO, "checkout", "--", "."], check=True)
for r in rows:
    print(" || ".join(r))

#!/venv/bin/python
"""Hand-made changes for hardening C08 / C12 / C13 / C17 / C18 (faults and argument types): apply
one to the private worktree, run the 47 tests and the property's check (quick tier), restore.
usage: QEXPY_REPO=/work/bW/repo notes/bw_mutations.py [name ...]      (no name = all)
A name ending in "(harmless)" must leave the check at exit 0."""
import os, subprocess, sys, json, re
REPO = os.environ.get("QEXPY_REPO", "/work/bW/repo")
VERIF = os.path.dirname(os.path.dirname(os.path.abspath(__file__)))
U, O, D, S, X, UN = ("qexpy/data/utils.py", "qexpy/data/operations.py", "qexpy/data/data.py",
                     "qexpy/data/datasets.py", "qexpy/utils/utils.py", "qexpy/utils/units.py")
POW = ("        power = operands[1].value\n        return OrderedDict([\n            (unit, count * power) "
       "for unit, count in operands[0]._unit.items()])\n")
SETTER = "        self._unit = utils.parse_unit_string(new_unit) if new_unit else {}\n\n    @utils.check_operand_type(\"==\")"
ARRSET = ("        new_unit = utils.parse_unit_string(unit_string) if unit_string else {}\n        for data in self:\n"
          "            data._unit = new_unit\n")
DEFINE = "    UNIT_DEFINITIONS[name] = parse_unit_string(unit)\n"
SETITEM = "        if isinstance(value, Real):\n            self[key].value = value\n"
MUT = {
 # ---------------- C08: faults
 "c08-array-unit-clears-first": ("C08", S, ARRSET,
    "        for data in self:\n            data._unit = {}\n" + ARRSET),
 "c08-setter-swallows-error": ("C08", D, SETTER,
    "        try:\n            self._unit = utils.parse_unit_string(new_unit) if new_unit else {}\n"
    "        except ValueError:\n            self._unit = {}\n\n    @utils.check_operand_type(\"==\")"),
 "c08-setter-type-check-after-clear": ("C08", D,
    "        if not isinstance(new_unit, str):\n            raise TypeError(\n                \"Cannot set unit of value to \\\"{}\\\"\".format(type(new_unit).__name__))\n        self._unit = utils",
    "        self._unit = {} if not isinstance(new_unit, str) else self._unit\n        if not isinstance(new_unit, str):\n            raise TypeError(\n                \"Cannot set unit of value to \\\"{}\\\"\".format(type(new_unit).__name__))\n        self._unit = utils"),
 "c08-failed-define-registers-empty": ("C08", UN, DEFINE, "    UNIT_DEFINITIONS[name] = {}\n" + DEFINE),
 "c08-recalculate-keeps-old-unit": ("C08", D,
    "            evaluator.clear()\n        self._unit = op.propagate_units(self._formula)\n",
    "            evaluator.clear()\n        self._unit = self._unit or op.propagate_units(self._formula)\n"),
 "c08-mismatch-clears-unpacked-copy (harmless)": ("C08", UN,
    "        warnings.warn(\"You're trying to add/subtract two values with mismatching units.\")\n        return OrderedDict()\n",
    "        warnings.warn(\"You're trying to add/subtract two values with mismatching units.\")\n        units_var2.clear()\n        return OrderedDict()\n"),
 # ---------------- C08: argument types
 "c08-pow-integral-or-float": ("C08", O, POW,
    "        power = operands[1].value\n        import numbers\n        if isinstance(power, (numbers.Integral, float)):\n            return OrderedDict([\n                (unit, count * power) for unit, count in operands[0]._unit.items()])\n"),
 "c08-pow-python-numbers-only": ("C08", O, POW,
    "        power = operands[1].value\n        if type(power) in (int, float) or hasattr(power, 'numerator'):\n            return OrderedDict([\n                (unit, count * power) for unit, count in operands[0]._unit.items()])\n"),
 "c08-pow-int-truncates": ("C08", O, POW,
    "        power = operands[1].value\n        power = int(power) if hasattr(power, 'dtype') else power\n        return OrderedDict([\n            (unit, count * power) for unit, count in operands[0]._unit.items()])\n"),
 "c08-pow-as-float (harmless)": ("C08", O, POW,
    "        power = float(operands[1].value)\n        return OrderedDict([\n            (unit, count * power) for unit, count in operands[0]._unit.items()])\n"),
 "c08-constant-test-by-type": ("C08", O,
    "    if all(operand._unit or isinstance(operand, dt.Constant) for operand in operands):\n",
    "    if all(operand._unit or (isinstance(operand, dt.Constant) and type(operand.value) in (int, float)) for operand in operands):\n"),
 # ---------------- C18
 "c18-failed-define-registers-empty": ("C18", UN, DEFINE, "    UNIT_DEFINITIONS[name] = {}\n" + DEFINE),
 "c18-name-check-after-write": ("C18", UN,
    "    if not re.match(r\"^[\\w]+$\", name):\n        raise IllegalArgumentError(\"The name of the new unit can only contain letters\")\n\n" + DEFINE,
    DEFINE + "    if not re.match(r\"^[\\w]+$\", name):\n        raise IllegalArgumentError(\"The name of the new unit can only contain letters\")\n"),
 "c18-failed-define-clears-all": ("C18", UN, DEFINE,
    "    try:\n        UNIT_DEFINITIONS[name] = parse_unit_string(unit)\n    except ValueError:\n        UNIT_DEFINITIONS = {}\n        raise\n"),
 "c18-redefinition-ignored": ("C18", UN, DEFINE, "    UNIT_DEFINITIONS.setdefault(name, parse_unit_string(unit))\n"),
 "c18-define-moves-to-end (harmless)": ("C18", UN, DEFINE,
    "    parsed = parse_unit_string(unit)\n    UNIT_DEFINITIONS.pop(name, None)\n    UNIT_DEFINITIONS[name] = parsed\n"),
 "c18-pack-integer-powers-only (harmless)": ("C18", UN,
    "        if exp:\n            return {unit: exp}\n",
    "        if exp and float(exp).is_integer():\n            return {unit: int(exp)}\n        if exp:\n            return result\n"),
 # ---------------- C17
 "c17-setitem-integral-or-float": ("C17", S, SETITEM,
    "        import numbers\n        if isinstance(value, (numbers.Integral, float)):\n            self[key].value = value\n"),
 "c17-setitem-exact-python-types": ("C17", S, SETITEM,
    "        if type(value) in (int, float, np.float64):\n            self[key].value = value\n"),
 "c17-wrap-measurement-python-numbers": ("C17", U,
    "    if isinstance(value, Real):\n        return dt.MeasuredValue(value, 0, **kwargs)\n",
    "    if isinstance(value, (int, float)):\n        return dt.MeasuredValue(value, 0, **kwargs)\n    if isinstance(value, Real):\n        return dt.MeasuredValue(int(value), 0, **kwargs)\n"),
 "c17-setitem-name-int-index-only": ("C17", S,
    "                index = key % len(self) if isinstance(key, (int, np.integer)) else key\n",
    "                index = key % len(self) if isinstance(key, int) else key\n"),
 "c17-array-unit-clears-first": ("C17", S, ARRSET,
    "        for data in self:\n            data._unit = {}\n" + ARRSET),
 "c17-value-setter-writes-before-check": ("C17", D,
    "        if not isinstance(value, Real):\n            raise TypeError(\"Cannot assign a {} to the value!\".format(type(value).__name__))\n        self._value = float(value)",
    "        self._value = value\n        if not isinstance(value, Real):\n            raise TypeError(\"Cannot assign a {} to the value!\".format(type(value).__name__))\n        self._value = float(value)"),
 "c17-name-setter-renames-before-check": ("C17", S,
    "        if not isinstance(new_name, str):\n            raise TypeError(\"Cannot set name to \\\"{}\\\"!\".format(type(new_name).__name__))\n        for index, measurement in enumerate(self):\n",
    "        for index, measurement in enumerate(self):\n            measurement._name = \"{}_{}\".format(new_name, index)\n        if not isinstance(new_name, str):\n            raise TypeError(\"Cannot set name to \\\"{}\\\"!\".format(type(new_name).__name__))\n        for index, measurement in enumerate(self):\n"),
 "c17-setitem-pair-writes-before-validation": ("C17", U,
    "    if isinstance(value, tuple) and len(value) == 2:\n        return dt.MeasuredValue(*value, **kwargs)\n",
    "    if isinstance(value, tuple) and len(value) == 2:\n        m = dt.MeasuredValue(value[0], 0, **kwargs)\n        m.error = value[1]\n        return m\n"),
 "c17-value-setter-fix-reverted": ("C17", D, "        self._value = float(value)  # stored as a float, as the constructor does\n",
                                    "        self._value = value\n"),
 # ---------------- C04 (argument types)
 "c04-corr-bound-only-for-floats": ("C04", D,
    "        if corr > 1 or corr < -1:\n            raise ValueError(\"The correlation factor: {} is non-physical\".format(corr))\n",
    "        if isinstance(corr, float) and (corr > 1 or corr < -1):\n            raise ValueError(\"The correlation factor: {} is non-physical\".format(corr))\n"),
 "c04-cov-none-test-by-truthiness": ("C04", D,
    "        if cov is None:\n            raise IllegalArgumentError(\n                \"The covariance is not provided, and cannot be calculated!\")\n\n        corr = cov / (self.std * other.std)",
    "        if not cov and not isinstance(cov, float):\n            raise IllegalArgumentError(\n                \"The covariance is not provided, and cannot be calculated!\")\n\n        corr = cov / (self.std * other.std)"),
 "c04-error-setter-rejects-numpy-ints": ("C04", D,
    "        if not isinstance(error, Real):\n            raise TypeError(\"Cannot assign a {} to the error!\".format(type(error).__name__))\n        if error < 0:\n            raise ValueError(\"The error must be a positive real number!\")\n        self._error = error\n",
    "        if not isinstance(error, (int, float)):\n            raise TypeError(\"Cannot assign a {} to the error!\".format(type(error).__name__))\n        if error < 0:\n            raise ValueError(\"The error must be a positive real number!\")\n        self._error = error\n"),
 # ---------------- C12 / C13
 "c13-power-printer-fix-reverted": ("C08", UN,
    "        (unit, power if isinstance(power, (Rational, float)) else float(power))\n",
    "        (unit, power)\n"),
 "c13-power-printer-float32-rounds": ("C13", UN,
    "        (unit, power if isinstance(power, (Rational, float)) else float(power))\n",
    "        (unit, power if isinstance(power, (Rational, float)) else round(float(power), 1))\n"),
 "c13-fraction-power-printed-as-float": ("C13", UN,
    "    fraction = Fraction(power).limit_denominator(10)\n",
    "    fraction = Fraction(power).limit_denominator(10) if not isinstance(power, Fraction) else Fraction(round(float(power)))\n"),
 "c12-setter-accepts-after-strip": ("C12", D, SETTER,
    "        self._unit = utils.parse_unit_string(new_unit.strip()) if new_unit else {}\n\n    @utils.check_operand_type(\"==\")"),
}


def run(name):
    pid, path, old, new = MUT[name]
    fn = os.path.join(REPO, path)
    src = open(fn).read()
    assert src.count(old) == 1, (name, src.count(old))
    open(fn, "w").write(src.replace(old, new))
    try:
        t = subprocess.run(["/venv/bin/python", "-m", "pytest", "-q", "-p", "no:cacheprovider"], cwd=REPO,
                           capture_output=True, text=True)
        tests = t.stdout.strip().splitlines()[-1]
        env = dict(os.environ, QEXPY_REPO=REPO)
        c = subprocess.run(["./check", pid], cwd=VERIF, capture_output=True, text=True, env=env)
        out = c.stdout.strip().splitlines()
        viol = [l for l in out if l.startswith("VIOLATION")]
        info = ""
        if viol:
            m = re.search(r"replay=(\S+)", viol[0])
            rp = json.load(open(os.path.join(VERIF, m.group(1))))
            f = rp.get("failure", {})
            info = "{} | {} | {}".format(f.get("signature"), (f.get("what") or "")[:110], str(f.get("input") or "")[:200])
            if not f:
                info = "broken: " + "; ".join(rp.get("no_longer_checks", []))[:300]
        print("{:45s} tests[{}] check rc={} {} :: {}".format(name, tests, c.returncode,
                                                            viol[0] if viol else out[-1], info), flush=True)
    finally:
        subprocess.run(["git", "-C", REPO, "checkout", "--", "."], check=True)


for n in (sys.argv[1:] or list(MUT)):
    run(n)

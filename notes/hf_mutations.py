#!/venv/bin/python
"""Hand-made changes for the hardening after round 5 (C08 written forms of leaf units and histories
that end with no definition active, C13 reads that raise and numpy powers of every width, C18
definitions and operands that mention a symbol more than once): apply one to the private worktree,
run the 47 tests and the property's check (quick tier), replay the reported input with and without
the change, restore.
usage: QEXPY_REPO=/work/hF/repo notes/hf_mutations.py [name ...]      (no name = all)
A name ending in "(harmless)" keeps the property and must leave the check at exit 0."""
import json
import os
import re
import subprocess
import sys

REPO = os.environ.get("QEXPY_REPO", "/work/hF/repo")
VERIF = os.path.dirname(os.path.dirname(os.path.abspath(__file__)))
O, D, S, UN = ("qexpy/data/operations.py", "qexpy/data/data.py", "qexpy/data/datasets.py",
               "qexpy/utils/units.py")
EVAL_RIGHT = ("            start_exponent_from = units[unit] if unit in units else 0\n"
              "            plus_or_minus = 1 if tree.operator == \"*\" else -1\n"
              "            units[unit] = start_exponent_from + plus_or_minus * exponent\n")
IMPLICIT = ("            last_token = tokens_list.pop()\n"
            "            tokens_list.append([last_token, \"*\", token])\n")
PUSH = "        elif token in precedence and precedence[token] > precedence[top_of_operators]:\n"
CLEAR = "    UNIT_DEFINITIONS = {}\n\n\ndef define_unit"
DEFINE = "    UNIT_DEFINITIONS[name] = parse_unit_string(unit)\n"
NORMAL = "        (unit, power if isinstance(power, (Rational, float)) else float(power))\n"
BARE = "    if has_bare_numerator:\n        raw_tokens_list.insert(0, \"1\")\n"
FINAL = ("    while len(operator_stack) > 1:\n"
         "        __construct_sub_tree_and_push_to_operand_stack()\n")

MUT = {
    # ------------------------------------------------ how a unit is WRITTEN (C08 leaves, C18 definitions)
    # a symbol met again under a "/" starts from 0 again: m^3/m is read as m^-1
    "written-division-forgets-earlier-exponent": ("C08", [(UN, EVAL_RIGHT,
        "            start_exponent_from = units[unit] if unit in units and tree.operator == \"*\" else 0\n"
        "            plus_or_minus = 1 if tree.operator == \"*\" else -1\n"
        "            units[unit] = start_exponent_from + plus_or_minus * exponent\n")]),
    "written-division-forgets-earlier-exponent/C18": ("C18", [(UN, EVAL_RIGHT,
        "            start_exponent_from = units[unit] if unit in units and tree.operator == \"*\" else 0\n"
        "            plus_or_minus = 1 if tree.operator == \"*\" else -1\n"
        "            units[unit] = start_exponent_from + plus_or_minus * exponent\n")]),
    # implicit multiplication no longer binds tighter than "/": kg/s^2A^2 is read as kg/s^2*A^2
    "written-implicit-multiplication-not-grouped": ("C08", [(UN, IMPLICIT,
        "            tokens_list.append(\"*\")\n            tokens_list.append(token)\n")]),
    # the remaining operators are reduced from the bottom of the stack: kg/s*m -> kg/(s*m) only
    # when three or more operands are left at the end
    "written-final-reduction-right-to-left": ("C08", [(UN, PUSH,
        "        elif token in precedence and (precedence[token] > precedence[top_of_operators] or (\n"
        "                token == \"*\" and top_of_operators == \"/\")):\n")]),
    # the bare numerator "1" is dropped together with the "/" that follows it: 1/s is read as s
    "written-bare-numerator-loses-the-slash": ("C08", [(UN, BARE,
        "    if has_bare_numerator:\n        raw_tokens_list.pop(0)\n")]),
    # harmless: the same accumulation written with dict.get
    "written-accumulate-with-get (harmless)": ("C18", [(UN, EVAL_RIGHT,
        "            plus_or_minus = 1 if tree.operator == \"*\" else -1\n"
        "            units[unit] = units.get(unit, 0) + plus_or_minus * exponent\n")]),
    # a definition "normalises" a symbol that is mentioned more than once to the power +-1
    "define-flattens-repeated-symbols": ("C18", [(UN, DEFINE,
        "    parsed = parse_unit_string(unit)\n"
        "    mentions = re.findall(r\"[a-zA-Z]+\", unit)\n"
        "    for sym in set(mentions):\n"
        "        if mentions.count(sym) > 1 and parsed.get(sym):\n"
        "            parsed[sym] = 1 if parsed[sym] > 0 else -1\n"
        "    UNIT_DEFINITIONS[name] = parsed\n")]),
    # ------------------------------------------------ a past that has ended (C08)
    # clear_unit_definitions() keeps the definition made last
    "clear-keeps-the-last-definition": ("C08", [(UN, CLEAR,
        "    UNIT_DEFINITIONS = dict(list(UNIT_DEFINITIONS.items())[-1:]) if len(UNIT_DEFINITIONS) > 1 else {}\n"
        "\n\ndef define_unit")]),
    # a rejected definition after a clear brings the cleared definitions back (a "rollback" to a
    # snapshot that clear does not reset)
    "rejected-define-restores-snapshot": ("C08", [
        (UN, DEFINE,
         "    try:\n        parsed = parse_unit_string(unit)\n    except ValueError:\n"
         "        UNIT_DEFINITIONS.update(SNAPSHOT)\n        raise\n"
         "    UNIT_DEFINITIONS[name] = parsed\n    SNAPSHOT[name] = parsed\n"),
        (UN, CLEAR, "    UNIT_DEFINITIONS = {}\n\n\nSNAPSHOT = {}\n\n\ndef define_unit")]),
    # harmless: clear empties the dictionary in place
    "clear-in-place (harmless)": ("C08", [(UN, "    global UNIT_DEFINITIONS  # pylint:disable=global-statement\n\n    UNIT_DEFINITIONS = {}\n",
                                           "    UNIT_DEFINITIONS.clear()\n")]),
    # ------------------------------------------------ numpy powers and the printer (C13)
    "printer-keeps-numpy-floating": ("C13", [(UN, NORMAL,
        "        (unit, power if isinstance(power, (Rational, float)) or type(power).__module__ == \"numpy\"\n"
        "         else float(power))\n")]),
    # exponents that are no Python number are truncated: x ** np.float32(1.5) prints m^1
    "printer-truncates-numpy-floating": ("C13", [(UN, NORMAL,
        "        (unit, power if isinstance(power, (Rational, float)) else int(power))\n")]),
    # only binary16 is affected (the narrowest type): rounded to one decimal
    "printer-rounds-binary16": ("C13", [(UN, NORMAL,
        "        (unit, power if isinstance(power, (Rational, float)) else\n"
        "         (round(float(power)) if type(power).__name__ == \"float16\" else float(power)))\n")]),
    "printer-converts-with-float-always (harmless)": ("C13", [(UN, NORMAL,
        "        (unit, power if isinstance(power, Rational) else float(power))\n")]),
}


def check(pid, extra=()):
    env = dict(os.environ, QEXPY_REPO=REPO)
    return subprocess.run(["./check", pid] + list(extra), cwd=VERIF, capture_output=True, text=True,
                          env=env)


def run(name):
    pid, edits = MUT[name]
    rp_path = r1 = None
    try:
        for path, old, new in edits:
            fn = os.path.join(REPO, path)
            src = open(fn).read()
            assert src.count(old) == 1, (name, path, old, src.count(old))
            open(fn, "w").write(src.replace(old, new))
        t = subprocess.run(["/venv/bin/python", "-m", "pytest", "-q", "-p", "no:cacheprovider"],
                           cwd=REPO, capture_output=True, text=True)
        tests = t.stdout.strip().splitlines()[-1]
        c = check(pid)
        out = c.stdout.strip().splitlines()
        viol = [l for l in out if l.startswith("VIOLATION")]
        info = ""
        if viol:
            m = re.search(r"replay=(\S+)", viol[0])
            rp_path = m.group(1)
            rp = json.load(open(os.path.join(VERIF, rp_path)))
            f = rp.get("failure", {})
            info = "{} | {} | {}".format(f.get("signature"), (f.get("what") or "")[:140],
                                         str(f.get("input") or "")[:260])
            if not f:
                info = "broken: " + "; ".join(rp.get("no_longer_checks", []))[:300]
            elif "no-failing-input-found" not in viol[0]:
                r1 = check(pid, ["--replay", rp_path]).returncode
    finally:
        subprocess.run(["git", "-C", REPO, "checkout", "--", "."], check=True)
    r0 = check(pid, ["--replay", rp_path]).returncode if r1 is not None else None
    print("{:50s} tests[{}] check rc={} replay(with change)={} replay(unchanged)={} {} :: {}".format(
        name, tests, c.returncode, r1, r0, viol[0] if viol else out[-1], info), flush=True)


for n in (sys.argv[1:] or list(MUT)):
    run(n)

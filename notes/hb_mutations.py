#!/venv/bin/python
"""Hand-made changes for the hardening after round 4 (C08 near misses and histories of evaluations,
C12 sessions and call forms, C13 histories before the judged print): apply one to the private
worktree, run the 47 tests and the property's check (quick tier), replay the reported input with
and without the change, restore.
usage: QEXPY_REPO=/work/hB/repo notes/hb_mutations.py [name ...]      (no name = all)
A name ending in "(harmless)" keeps the property and must leave the check at exit 0."""
import json
import os
import re
import subprocess
import sys

REPO = os.environ.get("QEXPY_REPO", "/work/hB/repo")
VERIF = os.path.dirname(os.path.dirname(os.path.abspath(__file__)))
O, D, S, UN = ("qexpy/data/operations.py", "qexpy/data/data.py", "qexpy/data/datasets.py",
               "qexpy/utils/units.py")
NONZERO = "    return {unit: count for unit, count in units.items() if count != 0}\n"
MISMATCH = "    if units_var1 and units_var2 and __non_zero(units_var1) != __non_zero(units_var2):\n"
PARSE = ("    tokens = __parse_unit_string_to_list(unit_string)\n"
         "    ast = __construct_expression_tree_with_list(tokens)\n"
         "    return __evaluate_unit_tree(ast)\n")
PRINT_HEAD = "    # exponents are printed through Fraction(), which takes ints, floats and Fractions but not a\n"
PRINT_TAIL = "        unit_string = __construct_unit_string_with_exponents(units)\n    return unit_string\n"
CLEAR = "    UNIT_DEFINITIONS = {}\n\n\ndef define_unit"
DEFINE = "    UNIT_DEFINITIONS[name] = parse_unit_string(unit)\n"
OPERATE = "    if all(operand._unit or isinstance(operand, dt.Constant) for operand in operands):\n"
YUNIT = "        self.ydata.unit = unit\n"
STR = "        unit_string = \" [{}]\".format(self.unit) if self.unit else \"\"\n"


def cache(key, clear_on_clear):
    """construct_unit_string with a module-level cache under `key`"""
    return [
        (UN, PRINT_HEAD, "    key = " + key + "\n    if key in STRINGS:\n        return STRINGS[key]\n" + PRINT_HEAD),
        (UN, PRINT_TAIL, "        unit_string = __construct_unit_string_with_exponents(units)\n"
                         "    STRINGS[key] = unit_string\n    return unit_string\n"),
        (UN, DEFINE, DEFINE + "    STRINGS.clear()\n"),
        (UN, CLEAR, "    UNIT_DEFINITIONS = {}\n" + ("    STRINGS.clear()\n" if clear_on_clear else "") +
         "\n\nSTRINGS = {}\n\n\ndef define_unit"),
    ]


MUT = {
    # ------------------------------------------------ C08: sloppy mismatch comparisons
    "c08-mismatch-keys-only": ("C08", [(UN, MISMATCH,
        "    if units_var1 and units_var2 and set(__non_zero(units_var1)) != set(__non_zero(units_var2)):\n")]),
    "c08-mismatch-tolerance-half": ("C08", [(UN, MISMATCH,
        "    a, b = __non_zero(units_var1), __non_zero(units_var2)\n"
        "    if units_var1 and units_var2 and (set(a) != set(b) or any(abs(a[k] - b[k]) > 0.5 for k in a)):\n")]),
    "c08-mismatch-int-truncation": ("C08", [(UN, NONZERO,
        "    return {unit: int(count) for unit, count in units.items() if int(count) != 0}\n")]),
    "c08-mismatch-case-insensitive": ("C08", [(UN, NONZERO,
        "    return {unit.lower(): count for unit, count in units.items() if count != 0}\n")]),
    "c08-mismatch-sorted-values": ("C08", [(UN, MISMATCH,
        "    if units_var1 and units_var2 and (set(units_var1) != set(units_var2) or sorted(\n"
        "            __non_zero(units_var1).values()) != sorted(__non_zero(units_var2).values())):\n")]),
    "c08-mismatch-proportional": ("C08", [(UN, MISMATCH,
        "    if units_var1 and units_var2 and not __try_pack(__non_zero(units_var1), __non_zero(units_var2)):\n")]),
    # NOT harmless: round(np.float32(-5.5), 9) is -5.5000005, so x ** np.float32(0.5) + (the same
    # by another route) is reported as a mismatch — found by the argument types of round 3
    "c08-mismatch-round-9-digits": ("C08", [(UN, NONZERO,
        "    return {unit: round(count, 9) for unit, count in units.items() if round(count, 9) != 0}\n")]),
    "c08-mismatch-round-9-digits-of-float (harmless)": ("C08", [(UN, NONZERO,
        "    return {unit: round(float(count), 9) for unit, count in units.items()\n"
        "            if round(float(count), 9) != 0}\n")]),
    # ------------------------------------------------ C08: histories of evaluations
    "c08-mismatch-warns-once": ("C08", [(UN, MISMATCH,
        "    if units_var1 and units_var2 and __non_zero(units_var1) != __non_zero(units_var2) and \\\n"
        "            WARNED.setdefault('mismatch', 0):\n        return OrderedDict()\n" + MISMATCH),
        (UN, "UNIT_OPERATIONS = {\n", "WARNED = {}\n\n\nUNIT_OPERATIONS = {\n"),
        (UN, "        warnings.warn(\"You're trying to add/subtract two values with mismatching units.\")\n",
         "        warnings.warn(\"You're trying to add/subtract two values with mismatching units.\")\n"
         "        WARNED['mismatch'] = 1\n")]),
    "c08-constant-dividend-keeps-unit": ("C08", [(O, OPERATE,
        "    if operator == lit.DIV and isinstance(operands[0], dt.Constant):\n"
        "        return OrderedDict(operands[1]._unit)\n" + OPERATE)]),
    # ------------------------------------------------ C12: state between calls
    "c12-parse-cache-key-lowercase": ("C12", [(UN, PARSE,
        "    key = unit_string.lower()\n    if key not in PARSED:\n"
        "        tokens = __parse_unit_string_to_list(unit_string)\n"
        "        ast = __construct_expression_tree_with_list(tokens)\n"
        "        PARSED[key] = __evaluate_unit_tree(ast)\n    return OrderedDict(PARSED[key])\n"),
        (UN, "def construct_unit_string(", "PARSED = {}\n\n\ndef construct_unit_string(")]),
    "c12-parse-returns-one-shared-dict": ("C12", [(UN, PARSE,
        "    tokens = __parse_unit_string_to_list(unit_string)\n"
        "    ast = __construct_expression_tree_with_list(tokens)\n"
        "    new = __evaluate_unit_tree(ast)\n    RESULT.clear()\n    RESULT.update(new)\n    return RESULT\n"),
        (UN, "def construct_unit_string(", "RESULT = OrderedDict()\n\n\ndef construct_unit_string(")]),
    "c12-parse-cache-returns-copies (harmless)": ("C12", [(UN, PARSE,
        "    if unit_string not in PARSED:\n"
        "        tokens = __parse_unit_string_to_list(unit_string)\n"
        "        ast = __construct_expression_tree_with_list(tokens)\n"
        "        PARSED[unit_string] = __evaluate_unit_tree(ast)\n    return OrderedDict(PARSED[unit_string])\n"),
        (UN, "def construct_unit_string(", "PARSED = {}\n\n\ndef construct_unit_string(")]),
    "c12-rejection-remembered-by-prefix": ("C12", [(UN, PARSE,
        "    if unit_string[:3] in REJECTED:\n        raise ValueError(\"not a valid unit\")\n"
        "    try:\n        tokens = __parse_unit_string_to_list(unit_string)\n    except ValueError:\n"
        "        REJECTED.add(unit_string[:3])\n        raise\n"
        "    ast = __construct_expression_tree_with_list(tokens)\n    return __evaluate_unit_tree(ast)\n"),
        (UN, "def construct_unit_string(", "REJECTED = set()\n\n\ndef construct_unit_string(")]),
    # ------------------------------------------------ C12: other call forms
    "c12-yunit-setter-strips": ("C12", [(S, YUNIT, "        self.ydata.unit = unit.strip()\n")]),
    "c12-array-of-measurements-strips": ("C12", [(S,
        "            for x in data:\n                x.unit = unit\n",
        "            for x in data:\n                x.unit = unit.strip()\n")]),
    # ------------------------------------------------ C13: state of the printer
    "c13-print-cache-keys-only": ("C13", cache(
        "(sts.get_settings().unit_style, tuple(units))", True)),
    "c13-print-cache-rounded-exponents": ("C13", cache(
        "(sts.get_settings().unit_style, tuple((k, round(v)) for k, v in units.items()))", True)),
    # harmless for C13: stale strings exist only while a definition is active (C18's domain)
    "c13-print-cache-define-forgotten (harmless)": ("C13", [x for x in cache(
        "(sts.get_settings().unit_style, tuple(units.items()))", True) if x[1] != DEFINE]),
    "c13-print-cache-without-style (harmless)": ("C13", cache("tuple(units.items())", True)),
    "c13-print-cache-complete (harmless)": ("C13", cache(
        "(sts.get_settings().unit_style, tuple(units.items()))", True)),
    "c13-str-remembers-first-unit": ("C13", [(D, STR,
        "        if not hasattr(self, \"_shown_unit\"):\n            self._shown_unit = self.unit\n"
        "        unit_string = \" [{}]\".format(self._shown_unit) if self._shown_unit else \"\"\n")]),
}


def check(pid, extra=()):
    env = dict(os.environ, QEXPY_REPO=REPO)
    return subprocess.run(["./check", pid] + list(extra), cwd=VERIF, capture_output=True, text=True,
                          env=env)


def run(name):
    pid, edits = MUT[name]
    try:
        for path, old, new in edits:
            fn = os.path.join(REPO, path)
            src = open(fn).read()
            assert src.count(old) == 1, (name, path, old, src.count(old))
            open(fn, "w").write(src.replace(old, new))
        t = subprocess.run(["/venv/bin/python", "-m", "pytest", "-q", "-p", "no:cacheprovider"],
                           cwd=REPO, capture_output=True, text=True)
        tests = t.stdout.strip().splitlines()[-1]
        c = check(pid)
        out = c.stdout.strip().splitlines()
        viol = [l for l in out if l.startswith("VIOLATION")]
        info, rp_path, r1 = "", None, None
        if viol:
            m = re.search(r"replay=(\S+)", viol[0])
            rp_path = m.group(1)
            rp = json.load(open(os.path.join(VERIF, rp_path)))
            f = rp.get("failure", {})
            info = "{} | {} | {}".format(f.get("signature"), (f.get("what") or "")[:140],
                                         str(f.get("input") or "")[:260])
            if not f:
                info = "broken: " + "; ".join(rp.get("no_longer_checks", []))[:300]
            elif "no-failing-input-found" not in viol[0]:
                r1 = check(pid, ["--replay", rp_path]).returncode
    finally:
        subprocess.run(["git", "-C", REPO, "checkout", "--", "."], check=True)
    r0 = check(pid, ["--replay", rp_path]).returncode if r1 is not None else None
    print("{:45s} tests[{}] check rc={} replay(with change)={} replay(unchanged)={} {} :: {}".format(
        name, tests, c.returncode, r1, r0, viol[0] if viol else out[-1], info), flush=True)


for n in (sys.argv[1:] or list(MUT)):
    run(n)

#!/venv/bin/python
"""Hand-made changes for hardening C02 / C16 after round 5 (seeded changes C02-7, C02-8, C16-10):
apply one to a private checkout of the library, run the 47 tests and the property's check (quick
tier), replay the reported file with and without the change, restore.
usage: QEXPY_REPO=<private checkout> notes/hd_mutations.py [name ...]      (no name = all)
A mutation is (property, file, old text, new text)."""
import os, subprocess, sys, json, re
REPO = os.environ.get("QEXPY_REPO", "/work/hD/repo")
VERIF = os.path.dirname(os.path.dirname(os.path.abspath(__file__)))
U, O, D, ST, PO = ("qexpy/data/utils.py", "qexpy/data/operations.py", "qexpy/data/data.py",
                   "qexpy/settings/settings.py", "qexpy/plotting/plotobjects.py")
MUT = {
 # ---------------- C02: draws outside the domain of an operator
 "c02-sqrt-of-abs": ("C02", O,
    "    lit.SQRT: np.sqrt,\n", "    lit.SQRT: lambda x: np.sqrt(abs(x)),\n"),
 "c02-sqrt-as-fourth-root-of-square (the translator follows it)": ("C02", O,
    "    lit.SQRT: np.sqrt,\n", "    lit.SQRT: lambda x: (x ** 2) ** 0.25,\n"),
 "c02-ln-of-abs": ("C02", O,
    "    lit.LN: np.log\n", "    lit.LN: lambda x: np.log(abs(x))\n"),
 "c02-nonfinite-replaced-by-mean": ("C02", O,
    "        result_data_set = result_data_set[np.isfinite(result_data_set)]\n",
    "        bad = ~np.isfinite(result_data_set)\n        if bad.any() and not bad.all():\n"
    "            result_data_set = np.where(bad, np.mean(result_data_set[~bad]), result_data_set)\n"
    "        result_data_set = result_data_set[np.isfinite(result_data_set)]\n"),
 "c02-pow-of-negative-base-uses-abs": ("C02", O,
    "    lit.POW: lambda x, a: x ** a,\n", "    lit.POW: lambda x, a: abs(x) ** a,\n"),
 # ---------------- C02 / C16: configuration touched by other sub-systems
 "c02-decorator-restores-default": ("C02", ST,
    "                set_monte_carlo_sample_size(temp_size)\n",
    "                set_monte_carlo_sample_size(10000)\n"),
 "c02-yerr-leaves-temporary-size": ("C02", PO,
    "    @property\n    @sts.use_mc_sample_size(10000)\n    def yerr(self):\n",
    "    @property\n    def yerr(self):\n        sts.set_monte_carlo_sample_size(10000)\n"),
 # ---------------- C16: looking is not touching
 "c16-display-buffers-mean-of-window": ("C16", O,
    "            value, error = np.mean(samples), np.std(samples, ddof=1)\n            value_label = \"mean = {:.2f}\".format(value)\n",
    "            value, error = np.mean(samples), np.std(samples, ddof=1)\n"
    "            self.values.setdefault(lit.MC_MEAN_AND_STD, dt.ValueWithError(value, error))\n"
    "            value_label = \"mean = {:.2f}\".format(value)\n"),
 "c16-display-window-becomes-range": ("C16", O,
    "            xrange = kwargs.pop('range')\n",
    "            xrange = kwargs.pop('range')\n            self.settings._MonteCarloSettings__settings[lit.XRANGE] = tuple(xrange)\n"),
 "c16-display-sorts-samples-in-place (harmless for the pair, not for the set)": ("C16", O,
    "        samples = self.samples\n        if \"range\" in kwargs:\n",
    "        self.raw_samples.sort()\n        samples = self.samples\n        if \"range\" in kwargs:\n"),
}


def run(name):
    pid, path, old, new = MUT[name]
    fn = os.path.join(REPO, path)
    src = open(fn).read()
    if src.count(old) != 1:
        print("{:60s} DOES-NOT-APPLY ({} matches)".format(name, src.count(old)), flush=True)
        return
    open(fn, "w").write(src.replace(old, new))
    try:
        t = subprocess.run(["/venv/bin/python", "-m", "pytest", "-q", "-p", "no:cacheprovider"], cwd=REPO,
                           capture_output=True, text=True)
        tests = t.stdout.strip().splitlines()[-1]
        env = dict(os.environ, QEXPY_REPO=REPO, MPLBACKEND="Agg")
        c = subprocess.run(["./check", pid], cwd=VERIF, capture_output=True, text=True, env=env)
        out = c.stdout.strip().splitlines()
        viol = [l for l in out if l.startswith("VIOLATION")]
        info, rr = "", ""
        if viol:
            m = re.search(r"replay=(\S+)", viol[0])
            rp = json.load(open(os.path.join(VERIF, m.group(1))))
            f = rp.get("failure", {})
            info = "{} | {} | {}".format(f.get("signature"), (f.get("what") or "")[:110],
                                         str(f.get("input") or "")[:220])
            if not f:
                info = "broken: " + "; ".join(rp.get("no_longer_checks", []))[:300]
            else:
                r1 = subprocess.run(["./check", pid, "--replay", m.group(1)], cwd=VERIF,
                                    capture_output=True, text=True, env=env).returncode
                subprocess.run(["git", "-C", REPO, "checkout", "--", "."], check=True)
                r0 = subprocess.run(["./check", pid, "--replay", m.group(1)], cwd=VERIF,
                                    capture_output=True, text=True, env=env).returncode
                rr = " replay with/without = {}/{}".format(r1, r0)
        print("{:60s} tests[{}] check rc={} {}{} :: {}".format(
            name, tests, c.returncode, viol[0] if viol else out[-1], rr, info), flush=True)
    finally:
        subprocess.run(["git", "-C", REPO, "checkout", "--", "."], check=True)


for n in (sys.argv[1:] or list(MUT)):
    run(n)

#!/bin/sh
# notes/hf_try_seed.sh <seedname> [extra check args] : apply the seeded change to the PRIVATE worktree
# $QEXPY_REPO, run the property's check, replay the reported input with and without the change, undo
V=$(cd "$(dirname "$0")/.." && pwd); R=${QEXPY_REPO:?set QEXPY_REPO to a private worktree}; export QEXPY_REPO=$R
T=${TMPDIR:-/tmp}/hf-try; mkdir -p $T
name=$1; shift
pid=${name%%-*}
cd $V
test -z "$(git -C $R status --short)" || { echo "repo dirty"; exit 2; }
git -C $R apply $V/seeded/$name/patch.diff || { echo "$name PATCH-DOES-NOT-APPLY"; exit 2; }
start=$(date +%s)
out=$(./check $pid "$@" 2>&1); rc=$?
end=$(date +%s)
echo "$out" > $T/last-$name.out
line=$(echo "$out" | grep VIOLATION | head -1)
rp=$(echo "$line" | sed -n 's/.*replay=\([^ ]*\).*/\1/p')
kind=caught
case "$line" in *no-failing-input-found*) kind=no-input;; "") kind=MISSED;; esac
r1=-; r0=-
if [ -n "$rp" ] && [ -f "$rp" ] && [ $kind = caught ]; then
  ./check $pid --replay $rp >$T/last-$name.replay1 2>&1; r1=$?
  git -C $R checkout -- .
  ./check $pid --replay $rp >$T/last-$name.replay0 2>&1; r0=$?
  cp $rp $T/last-$name.json
else
  git -C $R checkout -- .
fi
echo "$name rc=$rc $kind replay_changed=$r1 replay_unchanged=$r0 secs=$((end-start))"
echo "   $line" | cut -c1-400
test -z "$(git -C $R status --short)" || echo "REPO NOT CLEAN"
